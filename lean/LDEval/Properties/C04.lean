/-
  C04 — Clause and operator semantics.

  "A clause matches iff the context of the clause's kind has the referenced attribute and some
  (attribute value or array element, clause value) pair satisfies the operator under its typed
  definition: `in` is type-and-value equality of primitives, startsWith/endsWith/contains are
  string tests, matches is an RE2 search, the four comparison operators are numeric order,
  before/after are timestamp order, the semVer operators are Semantic Versioning 2.0 precedence
  (minor/patch may be omitted); mismatched types, unparseable operands and unknown operators never
  satisfy it. Negation inverts the outcome only when the attribute exists (a missing kind or
  attribute is a non-match either way); attribute `kind` tests every kind present in the context; …
  reaching a non-segment clause whose attribute is undefined or syntactically invalid makes the
  evaluation MALFORMED_FLAG."

  The declarative operator table is `Sat`.  The theorems are stated for plain clauses (`pre = {}`)
  and lifted to preprocessed clauses through C14 at the end of the file.  For `matches` the table
  says `rx p a = some true`; the code first asks whether the pattern compiles (`rx p ""` has an
  answer), so the equivalence needs the oracle to be coherent (`Coherent rx`: a pattern without an
  answer on the empty subject has no answer on any subject).  That hypothesis is explicit and is
  only required when the operator is `matches`.
-/
import LDEval.Proofs.SemVer
import LDEval.Proofs.AuditSemVer
import LDEval.Properties.C14
import LDEval.Properties.C05
import LDEval.Proofs.AuditClauseEval
import LDEval.Model.Codec

namespace LD.C04

/-- `Sat rx op u v`: the context value `u` and the clause value `v` satisfy operator `op`.

Unparsed values (`J.raw`, Go's `ldvalue.Raw`) enter the table exactly as the Go code treats them:
where the code asks `IsString()` / `IsNumber()` / `StringValue()` / `Float64Value()` / `Equal` the
operand is read through `J.unraw` (its parsed value); where it asks `Type()` the raw operand has no
usable type.  So the string, regexp, numeric and semVer rows are stated on `u.unraw` / `v.unraw`
(`parseSemVer` reads its operand through `unraw`, see `parseSemVer_eq_some_iff`); in the `in` row the
*context* value must itself be a primitive (a raw context value is found nowhere) while the clause
value is compared through `unraw`; and in the `before` / `after` rows neither operand may be raw
(`Time.valueToTimestamp` has no case for it, see `valueToTimestamp_raw`). -/
def Sat (rx : RegexOracle) (op : String) (u v : J) : Prop :=
  (op = "in" ∧ ((∃ a, u = .bool a ∧ v.unraw = .bool a) ∨ (∃ a, u = .num a ∧ v.unraw = .num a) ∨
      (∃ a, u = .str a ∧ v.unraw = .str a))) ∨
  (op = "startsWith" ∧ ∃ a b, u.unraw = .str a ∧ v.unraw = .str b ∧ strHasPrefix a b = true) ∨
  (op = "endsWith" ∧ ∃ a b, u.unraw = .str a ∧ v.unraw = .str b ∧ strHasSuffix a b = true) ∨
  (op = "contains" ∧ ∃ a b, u.unraw = .str a ∧ v.unraw = .str b ∧ strContains a b = true) ∨
  (op = "matches" ∧ ∃ a p, u.unraw = .str a ∧ v.unraw = .str p ∧ rx p a = some true) ∨
  (op = "lessThan" ∧ ∃ a b, u.unraw = .num a ∧ v.unraw = .num b ∧ a < b) ∨
  (op = "lessThanOrEqual" ∧ ∃ a b, u.unraw = .num a ∧ v.unraw = .num b ∧ a ≤ b) ∨
  (op = "greaterThan" ∧ ∃ a b, u.unraw = .num a ∧ v.unraw = .num b ∧ a > b) ∨
  (op = "greaterThanOrEqual" ∧ ∃ a b, u.unraw = .num a ∧ v.unraw = .num b ∧ a ≥ b) ∨
  (op = "before" ∧ ∃ t1 t2, Time.valueToTimestamp u = some t1 ∧ Time.valueToTimestamp v = some t2 ∧
      t1 < t2) ∨
  (op = "after" ∧ ∃ t1 t2, Time.valueToTimestamp u = some t1 ∧ Time.valueToTimestamp v = some t2 ∧
      t1 > t2) ∨
  (op = "semVerEqual" ∧ ∃ a b, parseSemVer u = some a ∧ parseSemVer v = some b ∧
      SemVerM.compare a b = 0) ∨
  (op = "semVerLessThan" ∧ ∃ a b, parseSemVer u = some a ∧ parseSemVer v = some b ∧
      SemVerM.compare a b = -1) ∨
  (op = "semVerGreaterThan" ∧ ∃ a b, parseSemVer u = some a ∧ parseSemVer v = some b ∧
      SemVerM.compare a b = 1)

/-- The fourteen operator names of the table (`segmentMatch` is handled elsewhere, see C05). -/
def opNames : List String :=
  ["in", "startsWith", "endsWith", "contains", "matches", "lessThan", "lessThanOrEqual",
   "greaterThan", "greaterThanOrEqual", "before", "after", "semVerEqual", "semVerLessThan",
   "semVerGreaterThan"]

/-- The oracle is coherent: a pattern that does not compile (no answer on the empty subject)
has no answer on any subject.  (Go: `regexp.Compile` fails independently of the subject.) -/
def Coherent (rx : RegexOracle) : Prop := ∀ p a, rx p "" = none → rx p a = none

variable (rx : RegexOracle)

/-- `Value.Equal` on primitives parses a raw operand on either side. -/
theorem primEq_iff (u v : J) :
    u.primEq v = true ↔ (∃ a, u.unraw = .bool a ∧ v.unraw = .bool a) ∨
      (∃ a, u.unraw = .num a ∧ v.unraw = .num a) ∨ (∃ a, u.unraw = .str a ∧ v.unraw = .str a) := by
  unfold J.primEq
  cases u.unraw <;> cases v.unraw <;> simp <;> exact eq_comm

/-- The typed linear search looks at the *type* of the context value first: a raw context value is
found nowhere, although `Equal` alone would parse it. -/
theorem linearFind_iff (vals : List J) (u : J) :
    linearFind vals u = true ↔ u.isRaw = false ∧ ∃ v ∈ vals, u.primEq v = true := by
  cases u <;> simp [linearFind, J.primEq, J.isRaw]

/-- The typed linear search is the `in` row of the table. -/
theorem linearFind_iff_sat (vals : List J) (u : J) :
    linearFind vals u = true ↔ ∃ v ∈ vals, (∃ a, u = .bool a ∧ v.unraw = .bool a) ∨
      (∃ a, u = .num a ∧ v.unraw = .num a) ∨ (∃ a, u = .str a ∧ v.unraw = .str a) := by
  cases u <;> simp [linearFind, primEq_iff]

/-- The timestamp conversion switches on `Type()`: a raw value is never a timestamp. -/
theorem valueToTimestamp_raw (w : J) : Time.valueToTimestamp (.raw w) = none := rfl

/-- The semVer conversion asks `IsString()` / `StringValue()`: it reads the parsed value. -/
theorem parseSemVer_eq_some_iff (u : J) (a : SemVer) :
    parseSemVer u = some a ↔ ∃ s, u.unraw = .str s ∧ SemVerM.parse s = some a := by
  unfold parseSemVer
  cases u.unraw <;> simp

theorem parseSemVer_raw (w : J) : parseSemVer (.raw w) = parseSemVer w := by simp [parseSemVer]

/-! ### The table, row by row -/

section rows
variable (u v : J)

theorem sat_in : Sat rx "in" u v ↔ (∃ a, u = .bool a ∧ v.unraw = .bool a) ∨
    (∃ a, u = .num a ∧ v.unraw = .num a) ∨ (∃ a, u = .str a ∧ v.unraw = .str a) := by simp [Sat]
theorem sat_startsWith : Sat rx "startsWith" u v ↔
    ∃ a b, u.unraw = .str a ∧ v.unraw = .str b ∧ strHasPrefix a b = true := by simp [Sat]
theorem sat_endsWith : Sat rx "endsWith" u v ↔
    ∃ a b, u.unraw = .str a ∧ v.unraw = .str b ∧ strHasSuffix a b = true := by simp [Sat]
theorem sat_contains : Sat rx "contains" u v ↔
    ∃ a b, u.unraw = .str a ∧ v.unraw = .str b ∧ strContains a b = true := by simp [Sat]
theorem sat_matches : Sat rx "matches" u v ↔
    ∃ a p, u.unraw = .str a ∧ v.unraw = .str p ∧ rx p a = some true := by simp [Sat]
theorem sat_lessThan : Sat rx "lessThan" u v ↔
    ∃ a b, u.unraw = .num a ∧ v.unraw = .num b ∧ a < b := by simp [Sat]
theorem sat_lessThanOrEqual : Sat rx "lessThanOrEqual" u v ↔
    ∃ a b, u.unraw = .num a ∧ v.unraw = .num b ∧ a ≤ b := by simp [Sat]
theorem sat_greaterThan : Sat rx "greaterThan" u v ↔
    ∃ a b, u.unraw = .num a ∧ v.unraw = .num b ∧ a > b := by simp [Sat]
theorem sat_greaterThanOrEqual : Sat rx "greaterThanOrEqual" u v ↔
    ∃ a b, u.unraw = .num a ∧ v.unraw = .num b ∧ a ≥ b := by simp [Sat]
theorem sat_before : Sat rx "before" u v ↔
    ∃ t1 t2, Time.valueToTimestamp u = some t1 ∧ Time.valueToTimestamp v = some t2 ∧ t1 < t2 := by
  simp [Sat]
theorem sat_after : Sat rx "after" u v ↔
    ∃ t1 t2, Time.valueToTimestamp u = some t1 ∧ Time.valueToTimestamp v = some t2 ∧ t1 > t2 := by
  simp [Sat]
theorem sat_semVerEqual : Sat rx "semVerEqual" u v ↔
    ∃ a b, parseSemVer u = some a ∧ parseSemVer v = some b ∧ SemVerM.compare a b = 0 := by
  simp [Sat]
theorem sat_semVerLessThan : Sat rx "semVerLessThan" u v ↔
    ∃ a b, parseSemVer u = some a ∧ parseSemVer v = some b ∧ SemVerM.compare a b = -1 := by
  simp [Sat]
theorem sat_semVerGreaterThan : Sat rx "semVerGreaterThan" u v ↔
    ∃ a b, parseSemVer u = some a ∧ parseSemVer v = some b ∧ SemVerM.compare a b = 1 := by
  simp [Sat]

end rows

/-! ### Raw (unparsed) operands, operator by operator -/

/-- OPAQUE: a raw context value satisfies `in` with nothing (`ClauseFindValue` switches on
`Type()`, and `asPrimitiveValueKey` too). -/
theorem sat_in_raw_ctx (w v : J) : ¬ Sat rx "in" (.raw w) v := by simp [Sat]

/-- OPAQUE: a raw operand on either side satisfies neither `before` nor `after`. -/
theorem sat_date_raw_ctx (op : String) (hop : op = "before" ∨ op = "after") (w v : J) :
    ¬ Sat rx op (.raw w) v := by
  rcases hop with rfl | rfl <;> simp [Sat, Time.valueToTimestamp]
theorem sat_date_raw_clause (op : String) (hop : op = "before" ∨ op = "after") (u w : J) :
    ¬ Sat rx op u (.raw w) := by
  rcases hop with rfl | rfl <;> simp [Sat, Time.valueToTimestamp]

/-- TRANSPARENT on the context side: for every operator but `in`, `before`, `after`, a raw context
value satisfies exactly what its parsed value satisfies. -/
theorem sat_raw_ctx (op : String) (hop : op ≠ "in" ∧ op ≠ "before" ∧ op ≠ "after") (w v : J) :
    Sat rx op (.raw w) v ↔ Sat rx op w v := by
  simp [Sat, hop, parseSemVer_raw]

/-- TRANSPARENT on the clause side: for every operator but `before`, `after` (so for `in` too:
`Equal` parses), a raw clause value satisfies exactly what its parsed value satisfies. -/
theorem sat_raw_clause (op : String) (hop : op ≠ "before" ∧ op ≠ "after") (u w : J) :
    Sat rx op u (.raw w) ↔ Sat rx op u w := by
  simp [Sat, hop, parseSemVer_raw]

/-- An operator name outside the table satisfies nothing. -/
theorem sat_unknown (op : String) (h : op ∉ opNames) (u v : J) : ¬ Sat rx op u v := by
  simp only [opNames, List.mem_cons, List.not_mem_nil, or_false, not_or] at h
  unfold Sat
  simp [h]

/-- The typed accessors of a plain clause parse the operand on the spot. -/
theorem doOp_plain_iff (c : Clause) (hpre : c.pre = {}) (hin : c.op ≠ "in")
    (hrx : c.op = "matches" → Coherent rx) (u v : J) (i : Nat) (hv : c.values[i]? = some v) :
    doOp rx c u v i = true ↔ Sat rx c.op u v := by
  have hts : c.valueAsTimestamp i = Time.valueToTimestamp v := by
    simp [Clause.valueAsTimestamp, hpre, hv]
  have hsv : c.valueAsSemVer i = parseSemVer v := by
    simp [Clause.valueAsSemVer, hpre, hv]
  have hre : c.valueAsRegexp rx i = parseRegexp rx v := by
    simp [Clause.valueAsRegexp, hpre, hv]
  unfold doOp
  simp only [hts, hsv, hre]
  by_cases h1 : c.op = "endsWith"
  · rw [h1, sat_endsWith]; simp only [String.reduceEq, beq_self_eq_true, if_true, if_false,
      beq_iff_eq]
    generalize u.unraw = u'; generalize v.unraw = v'; cases u' <;> cases v' <;> simp
  by_cases h2 : c.op = "startsWith"
  · rw [h2, sat_startsWith]; simp only [String.reduceEq, beq_self_eq_true, if_true, if_false,
      beq_iff_eq]
    generalize u.unraw = u'; generalize v.unraw = v'; cases u' <;> cases v' <;> simp
  by_cases h3 : c.op = "matches"
  · rw [h3, sat_matches]
    have hco := hrx h3
    simp only [parseRegexp]
    generalize u.unraw = u'; generalize v.unraw = v'
    cases u' <;> cases v' <;> simp
    rename_i a p
    cases h0 : rx p "" with
    | none => simp [hco p a h0]
    | some b0 => cases hra : rx p a <;> simp [hra]
  by_cases h4 : c.op = "contains"
  · rw [h4, sat_contains]; simp only [String.reduceEq, beq_self_eq_true, if_true, if_false,
      beq_iff_eq]
    generalize u.unraw = u'; generalize v.unraw = v'; cases u' <;> cases v' <;> simp
  by_cases h5 : c.op = "lessThan"
  · rw [h5, sat_lessThan]; simp only [String.reduceEq, beq_self_eq_true, if_true, if_false,
      beq_iff_eq]
    generalize u.unraw = u'; generalize v.unraw = v'; cases u' <;> cases v' <;> simp
  by_cases h6 : c.op = "lessThanOrEqual"
  · rw [h6, sat_lessThanOrEqual]; simp only [String.reduceEq, beq_self_eq_true, if_true, if_false,
      beq_iff_eq]
    generalize u.unraw = u'; generalize v.unraw = v'; cases u' <;> cases v' <;> simp
  by_cases h7 : c.op = "greaterThan"
  · rw [h7, sat_greaterThan]; simp only [String.reduceEq, beq_self_eq_true, if_true, if_false,
      beq_iff_eq]
    generalize u.unraw = u'; generalize v.unraw = v'; cases u' <;> cases v' <;> simp
  by_cases h8 : c.op = "greaterThanOrEqual"
  · rw [h8, sat_greaterThanOrEqual]; simp only [String.reduceEq, beq_self_eq_true, if_true, if_false,
      beq_iff_eq]
    generalize u.unraw = u'; generalize v.unraw = v'; cases u' <;> cases v' <;> simp
  by_cases h9 : c.op = "before"
  · rw [h9, sat_before]
    cases Time.valueToTimestamp v <;> cases Time.valueToTimestamp u <;> simp
  by_cases h10 : c.op = "after"
  · rw [h10, sat_after]
    cases Time.valueToTimestamp v <;> cases Time.valueToTimestamp u <;> simp
  by_cases h11 : c.op = "semVerEqual"
  · rw [h11, sat_semVerEqual]
    cases parseSemVer v <;> cases parseSemVer u <;> simp
  by_cases h12 : c.op = "semVerLessThan"
  · rw [h12, sat_semVerLessThan]
    cases parseSemVer v <;> cases parseSemVer u <;> simp
  by_cases h13 : c.op = "semVerGreaterThan"
  · rw [h13, sat_semVerGreaterThan]
    cases parseSemVer v <;> cases parseSemVer u <;> simp
  have hn : c.op ∉ opNames := by
    simp [opNames, hin, h1, h2, h3, h4, h5, h6, h7, h8, h9, h10, h11, h12, h13]
  simp [h1, h2, h3, h4, h5, h6, h7, h8, h9, h10, h11, h12, h13, sat_unknown rx c.op hn]

/-! ### 1. `matchAny`: some clause value satisfies the operator -/

/-- For a plain (not preprocessed) clause, a context value `u` matches iff some clause value
satisfies the operator with `u` under the typed table `Sat`.  The coherence of the regexp oracle is
needed for `matches` only.  (C14 lifts this to preprocessed clauses.) -/
theorem matchAny_iff (c : Clause) (hpre : c.pre = {}) (hrx : c.op = "matches" → Coherent rx)
    (u : J) : matchAny rx c u = true ↔ ∃ v ∈ c.values, Sat rx c.op u v := by
  unfold matchAny
  by_cases hin : c.op = "in"
  · simp only [hin, beq_self_eq_true, if_true]
    rw [findValue_plain c (by rw [hpre]), linearFind_iff_sat]
    simp only [sat_in]
  · have hne : (c.op == "in") = false := by simpa using hin
    simp only [hne, Bool.false_eq_true, if_false, anyIdx_iff, Nat.zero_add]
    constructor
    · rintro ⟨j, hj, h⟩
      exact ⟨c.values[j], List.getElem_mem hj,
        (doOp_plain_iff rx c hpre hin hrx u _ j (List.getElem?_eq_getElem hj)).1 h⟩
    · rintro ⟨v, hv, h⟩
      obtain ⟨j, hj, rfl⟩ := List.getElem_of_mem hv
      exact ⟨j, hj, (doOp_plain_iff rx c hpre hin hrx u _ j (List.getElem?_eq_getElem hj)).2 h⟩

/-- Unknown operators (anything but the fourteen names; that includes `segmentMatch` when it
reaches the non-segment code path) match nothing — with or without tables. -/
theorem unknown_op_never (c : Clause) (hop : c.op ∉ opNames) (u : J) : matchAny rx c u = false := by
  simp only [opNames, List.mem_cons, List.not_mem_nil, or_false, not_or] at hop
  have hd : ∀ cv i, doOp rx c u cv i = false := by
    intro cv i; unfold doOp; simp [hop]
  unfold matchAny
  have hne : (c.op == "in") = false := by simpa using hop.1
  simp only [hne, Bool.false_eq_true, if_false, hd]
  generalize 0 = k
  induction c.values generalizing k with
  | nil => rfl
  | cons a l ih => simp [anyIdx, ih]

/-! ### 2. Clauses on an ordinary attribute -/

/-- The values a context attribute offers to the operator: the elements of an array, else the
value itself.  The array test is `Type() == ArrayType`: an unparsed array (`.raw (.arr xs)`) is NOT
iterated, it is offered as the single value it is. -/
def elems : J → List J
  | .arr xs => xs
  | v => [v]

/-- The clause's kind is absent from the context: non-match, negated or not. -/
theorem missing_kind_no_match (c : Clause) (ctx : Ctx) (hdef : c.attr.isDefined = true)
    (herr : c.attr.errOf = none) (hk : c.attr.raw ≠ "kind")
    (hmiss : ctx.byKind c.contextKind = none) : clauseMatchNoSeg rx ctx c = .ok false := by
  unfold clauseMatchNoSeg
  simp [hdef, herr, hk, hmiss]

/-- The attribute is absent from the context of the clause's kind: non-match, negated or not. -/
theorem missing_attr_no_match (c : Clause) (ctx : Ctx) (sc : SCtx) (hdef : c.attr.isDefined = true)
    (herr : c.attr.errOf = none) (hk : c.attr.raw ≠ "kind")
    (hsc : ctx.byKind c.contextKind = some sc) (hmiss : sc.valueForRef c.attr = .null) :
    clauseMatchNoSeg rx ctx c = .ok false := by
  unfold clauseMatchNoSeg
  simp [hdef, herr, hk, hsc, hmiss]

/-- The null test is `IsNull()`, which parses: an attribute (in practice a nested member) holding
the unparsed text `null` is absent as well. -/
theorem null_attr_no_match (c : Clause) (ctx : Ctx) (sc : SCtx) (hdef : c.attr.isDefined = true)
    (herr : c.attr.errOf = none) (hk : c.attr.raw ≠ "kind")
    (hsc : ctx.byKind c.contextKind = some sc) (hmiss : (sc.valueForRef c.attr).unraw = .null) :
    clauseMatchNoSeg rx ctx c = .ok false := by
  have hn : (sc.valueForRef c.attr).isNull = true := (J.isNull_iff _).2 hmiss
  unfold clauseMatchNoSeg
  simp only [hdef, herr, hsc, Bool.not_true, Bool.false_eq_true, if_false, Option.isSome_none]
  have : (c.attr.raw == "kind") = false := by simpa using hk
  simp only [this, Bool.false_eq_true, if_false]
  cases h : sc.valueForRef c.attr <;> simp_all

/-- The attribute is present (its parsed value is not null): negate ⊻ (some element of the attribute
value and some clause value satisfy the operator). -/
theorem present_attr_match (c : Clause) (ctx : Ctx) (sc : SCtx) (hdef : c.attr.isDefined = true)
    (herr : c.attr.errOf = none) (hk : c.attr.raw ≠ "kind")
    (hsc : ctx.byKind c.contextKind = some sc) (hpres : (sc.valueForRef c.attr).unraw ≠ .null) :
    clauseMatchNoSeg rx ctx c =
      .ok (maybeNegate c.negate ((elems (sc.valueForRef c.attr)).any (matchAny rx c))) := by
  unfold clauseMatchNoSeg
  simp only [hdef, herr, hsc, Bool.not_true, Bool.false_eq_true, if_false, Option.isSome_none]
  have : (c.attr.raw == "kind") = false := by simpa using hk
  simp only [this, Bool.false_eq_true, if_false]
  have hn : (sc.valueForRef c.attr).isNull = false := (J.isNull_eq_false_iff _).2 hpres
  cases h : sc.valueForRef c.attr <;> simp_all [elems]

theorem maybeNegate_eq_true (n b : Bool) : maybeNegate n b = true ↔ (n = false ↔ b = true) := by
  cases n <;> cases b <;> simp [maybeNegate]

/-- A non-segment clause on an ordinary attribute, in full. -/
theorem clause_iff (c : Clause) (ctx : Ctx) (hdef : c.attr.isDefined = true)
    (herr : c.attr.errOf = none) (hk : c.attr.raw ≠ "kind") (hpre : c.pre = {})
    (hrx : c.op = "matches" → Coherent rx) :
    ∃ b, clauseMatchNoSeg rx ctx c = .ok b ∧
      (b = true ↔ ∃ sc, ctx.byKind c.contextKind = some sc ∧ (sc.valueForRef c.attr).unraw ≠ .null ∧
        (c.negate = false ↔
          ∃ u ∈ elems (sc.valueForRef c.attr), ∃ v ∈ c.values, Sat rx c.op u v)) := by
  cases hsc : ctx.byKind c.contextKind with
  | none =>
    exact ⟨false, missing_kind_no_match rx c ctx hdef herr hk hsc, by simp⟩
  | some sc =>
    by_cases hnull : (sc.valueForRef c.attr).unraw = .null
    · refine ⟨false, null_attr_no_match rx c ctx sc hdef herr hk hsc hnull, ?_⟩
      simp [hnull]
    · refine ⟨_, present_attr_match rx c ctx sc hdef herr hk hsc hnull, ?_⟩
      rw [maybeNegate_eq_true]
      simp only [Option.some.injEq, List.any_eq_true, matchAny_iff rx c hpre hrx]
      constructor
      · intro h; exact ⟨sc, rfl, hnull, h⟩
      · rintro ⟨sc', rfl, _, h⟩; exact h

/-! ### 3. Attribute `kind` -/

/-- The kinds a `kind` clause is tested against: every kind present in the context. -/
def kindsOf : Ctx → List String
  | .multi cs => cs.map (·.kind)
  | ctx => [ctx.kind]

theorem kindsOf_single (sc : SCtx) : kindsOf (.single sc) = [sc.kind] := rfl
theorem kindsOf_multi (cs : List SCtx) : kindsOf (.multi cs) = cs.map (·.kind) := rfl

/-- Attribute `kind` tests every kind present in the context (the clause's own `contextKind` is
not consulted), and negation inverts the outcome. -/
theorem kind_clause (c : Clause) (ctx : Ctx) (hk : c.attr.raw = "kind") (herr : c.attr.errOf = none) :
    clauseMatchNoSeg rx ctx c =
      .ok (maybeNegate c.negate ((kindsOf ctx).any fun k => matchAny rx c (.str k))) := by
  have hdef : c.attr.isDefined = true := by simp [Ref.isDefined, hk]
  unfold clauseMatchNoSeg clauseMatchByKind
  simp only [hdef, herr, hk]
  cases ctx <;> simp [kindsOf, List.any_map, Function.comp_def]

theorem kind_clause_iff (c : Clause) (ctx : Ctx) (hk : c.attr.raw = "kind")
    (herr : c.attr.errOf = none) (hpre : c.pre = {}) (hrx : c.op = "matches" → Coherent rx) :
    ∃ b, clauseMatchNoSeg rx ctx c = .ok b ∧
      (b = true ↔ (c.negate = false ↔
        ∃ k ∈ kindsOf ctx, ∃ v ∈ c.values, Sat rx c.op (.str k) v)) := by
  refine ⟨_, kind_clause rx c ctx hk herr, ?_⟩
  rw [maybeNegate_eq_true]
  simp only [List.any_eq_true, matchAny_iff rx c hpre hrx]

/-! ### 4. Malformed attribute references -/

theorem malformed_undefined (c : Clause) (ctx : Ctx) (h : c.attr.isDefined = false) :
    clauseMatchNoSeg rx ctx c = .error .emptyAttr := by
  unfold clauseMatchNoSeg; simp [h]

theorem malformed_invalid (c : Clause) (ctx : Ctx) (h : c.attr.isDefined = true)
    (he : c.attr.errOf.isSome = true) :
    clauseMatchNoSeg rx ctx c = .error (.badAttrRef c.attr.raw) := by
  unfold clauseMatchNoSeg; simp [h, he]

theorem malformed_kinds (s : String) :
    EvalErr.emptyAttr.kind = .malformedFlag ∧ (EvalErr.badAttrRef s).kind = .malformedFlag :=
  ⟨rfl, rfl⟩

/-! ### Lifting to preprocessed clauses (C14) -/

theorem matchAny_iff_preprocessed (c : Clause) (hrx : c.op = "matches" → Coherent rx) (u : J) :
    matchAny rx { c with pre := preprocessClause rx c } u = true ↔
      ∃ v ∈ c.values, Sat rx c.op u v := by
  rw [C14.matchAny_transparent]
  exact matchAny_iff rx { c with pre := {} } rfl hrx u

theorem clause_iff_preprocessed (c : Clause) (ctx : Ctx) (hdef : c.attr.isDefined = true)
    (herr : c.attr.errOf = none) (hk : c.attr.raw ≠ "kind") (hrx : c.op = "matches" → Coherent rx) :
    ∃ b, clauseMatchNoSeg rx ctx { c with pre := preprocessClause rx c } = .ok b ∧
      (b = true ↔ ∃ sc, ctx.byKind c.contextKind = some sc ∧ (sc.valueForRef c.attr).unraw ≠ .null ∧
        (c.negate = false ↔
          ∃ u ∈ elems (sc.valueForRef c.attr), ∃ v ∈ c.values, Sat rx c.op u v)) := by
  rw [C14.clause_transparent]
  exact clause_iff rx { c with pre := {} } ctx hdef herr hk rfl hrx

/-! ### 5. Non-vacuity -/

example : Sat rx "in" (.num 1) (.num 1) := by simp [Sat]
example : ¬ Sat rx "in" (.num 1) (.str "1") := by simp [Sat]
example : ¬ Sat rx "in" (.arr [.num 1]) (.num 1) := by simp [Sat]
example : Sat rx "lessThan" (.num 1) (.num 2) := by
  rw [sat_lessThan]; exact ⟨1, 2, rfl, rfl, by decide⟩
example : ¬ Sat rx "lessThan" (.str "1") (.num 2) := by simp [Sat]
example : Sat rx "startsWith" (.str "abc") (.str "ab") := by
  rw [sat_startsWith]; exact ⟨_, _, rfl, rfl, by decide⟩
example : Sat rx "before" (.num 1000) (.num 2000) := by
  rw [sat_before]; exact ⟨1000000000, 2000000000, by decide, by decide, by decide⟩
example : ¬ Sat rx "before" (.bool true) (.num 2000) := by
  rw [sat_before]; simp [Time.valueToTimestamp]
example : ¬ Sat rx "semVerEqual" (.num 2) (.num 2) := by
  rw [sat_semVerEqual]; simp [parseSemVer]
example : ¬ Sat rx "segmentMatch" (.str "a") (.str "a") := sat_unknown rx _ (by decide) _ _
example : ¬ Sat rx "In" (.str "a") (.str "a") := sat_unknown rx _ (by decide) _ _

/-- A coherent oracle exists (so `matchAny_iff` is not vacuous for `matches`). -/
example : Coherent (fun p a => if p = "(" then none else some (p = a)) := by
  intro p a h; by_cases hp : p = "(" <;> simp_all

/-- …and an incoherent one shows the hypothesis is needed: the table would say "match" where the
code says "pattern does not compile". -/
example : ¬ Coherent (fun _ a => if a = "" then none else some true) := by
  intro h; have := h "p" "x" (by simp); simp at this

def exCtx : Ctx := .single { kind := "user", key := "k", name := some "Bob" }
def exClause (attr : String) (neg : Bool) : Clause :=
  { attr := { raw := attr, single := attr }, op := "in", values := [.num 1, .str "Bob"],
    negate := neg }

example : clauseMatchNoSeg rx exCtx (exClause "name" false) = .ok true := by
  simp [clauseMatchNoSeg, exClause, exCtx, Ref.isDefined, Ref.errOf, Ctx.byKind, Ctx.individuals,
    normKind, defaultKind, SCtx.valueForRef, SCtx.topLevel, Ref.component, SCtx.descend,
    maybeNegate, matchAny, Clause.findValue, J.primEq]
example : clauseMatchNoSeg rx exCtx (exClause "name" true) = .ok false := by
  simp [clauseMatchNoSeg, exClause, exCtx, Ref.isDefined, Ref.errOf, Ctx.byKind, Ctx.individuals,
    normKind, defaultKind, SCtx.valueForRef, SCtx.topLevel, Ref.component, SCtx.descend,
    maybeNegate, matchAny, Clause.findValue, J.primEq]
/-- Missing attribute: non-match with and without negation. -/
example (neg : Bool) : clauseMatchNoSeg rx exCtx (exClause "email" neg) = .ok false := by
  simp [clauseMatchNoSeg, exClause, exCtx, Ref.isDefined, Ref.errOf, Ctx.byKind, Ctx.individuals,
    normKind, defaultKind, SCtx.valueForRef, SCtx.topLevel, Ref.component]
/-- Undefined attribute reference: MALFORMED_FLAG. -/
example : clauseMatchNoSeg rx exCtx { op := "in" } = .error .emptyAttr :=
  malformed_undefined rx _ _ (by simp [Ref.isDefined])

/-! #### Unparsed (raw) values -/

example : ¬ Sat rx "in" (.raw (.str "abc")) (.str "abc") := sat_in_raw_ctx rx _ _
example : Sat rx "in" (.str "abc") (.raw (.str "abc")) := by simp [Sat]
example : Sat rx "startsWith" (.raw (.str "abc")) (.raw (.str "ab")) := by
  rw [sat_startsWith]; exact ⟨_, _, rfl, rfl, by decide⟩
example : Sat rx "lessThan" (.raw (.num 1)) (.num 2) := by
  rw [sat_lessThan]; exact ⟨1, 2, rfl, rfl, by decide⟩
example : ¬ Sat rx "before" (.raw (.num 1000)) (.num 2000) := by
  rw [sat_before]; simp [Time.valueToTimestamp]
example : ¬ Sat rx "before" (.num 1000) (.raw (.num 2000)) := by
  rw [sat_before]; simp [Time.valueToTimestamp]

/-- A `user` context with the single custom attribute `a`. -/
def rawCtx (v : J) : Ctx := .single { kind := "user", key := "k", attrs := [("a", v)] }
/-- A plain (not preprocessed) clause on attribute `a`. -/
def rawClause (op : String) (vals : List J) : Clause :=
  { attr := { raw := "a", single := "a" }, op := op, values := vals }

/-- A raw string context value does NOT match `in ["abc"]` (the plain string does, and so does a
plain string against a raw clause value: `Equal` parses) … -/
example : clauseMatchNoSeg rx (rawCtx (.raw (.str "abc"))) (rawClause "in" [.str "abc"]) = .ok false := rfl
example : clauseMatchNoSeg rx (rawCtx (.str "abc")) (rawClause "in" [.str "abc"]) = .ok true := rfl
example : clauseMatchNoSeg rx (rawCtx (.str "abc")) (rawClause "in" [.raw (.str "abc")]) = .ok true := rfl
/-- … also when the equality-set table exists (two primitive clause values) … -/
example : clauseMatchNoSeg rx (rawCtx (.raw (.str "abc")))
    { rawClause "in" [.str "abc", .num 1] with pre := preprocessClause rx (rawClause "in" [.str "abc", .num 1]) }
      = .ok false := rfl
/-- … but it DOES match `startsWith "ab"`. -/
example : clauseMatchNoSeg rx (rawCtx (.raw (.str "abc"))) (rawClause "startsWith" [.str "ab"]) = .ok true := rfl
/-- A raw array is not iterated: `raw ["abc"]` does not match `startsWith "ab"`, the plain array does. -/
example : clauseMatchNoSeg rx (rawCtx (.raw (.arr [.str "abc"]))) (rawClause "startsWith" [.str "ab"])
    = .ok false := rfl
example : clauseMatchNoSeg rx (rawCtx (.arr [.str "abc"])) (rawClause "startsWith" [.str "ab"])
    = .ok true := rfl
/-- A raw string date does not match `before` (nor does a raw number, nor a raw clause value); the
plain string date does. -/
example : clauseMatchNoSeg rx (rawCtx (.raw (.str "1970-01-01T00:00:00Z"))) (rawClause "before" [.num 1000])
    = .ok false := rfl
example : clauseMatchNoSeg rx (rawCtx (.raw (.num 0))) (rawClause "before" [.num 1000]) = .ok false := rfl
example : clauseMatchNoSeg rx (rawCtx (.num 0)) (rawClause "before" [.raw (.num 1000)]) = .ok false := rfl
example : (clauseMatchNoSeg (fun _ _ => none) (rawCtx (.str "1970-01-01T00:00:00Z"))
    (rawClause "before" [.num 1000])).toOption = some true := by decide +kernel
/-- The null test parses: a member holding the unparsed text `null` is a missing attribute (no match
even when negated); navigation into an unparsed object parses it. -/
example : clauseMatchNoSeg rx (rawCtx (.obj [("b", .raw .null)]))
    { rawClause "in" [.num 1] with attr := Ref.newRef "/a/b", negate := true } = .ok false := rfl
example : clauseMatchNoSeg rx (rawCtx (.raw (.obj [("b", .num 1)])))
    { rawClause "in" [.num 1] with attr := Ref.newRef "/a/b" } = .ok true := rfl

#print axioms matchAny_iff
#print axioms unknown_op_never
#print axioms clause_iff
#print axioms missing_kind_no_match
#print axioms missing_attr_no_match
#print axioms null_attr_no_match
#print axioms present_attr_match
#print axioms sat_raw_ctx
#print axioms sat_raw_clause
#print axioms sat_in_raw_ctx
#print axioms sat_date_raw_ctx
#print axioms sat_date_raw_clause
#print axioms kind_clause
#print axioms kind_clause_iff
#print axioms malformed_undefined
#print axioms malformed_invalid
#print axioms matchAny_iff_preprocessed
#print axioms clause_iff_preprocessed


/-! ### The semVer operators are Semantic Versioning 2.0.0 precedence (§11), minor/patch optional -/

/-- Every well-formed version string, with minor and patch optionally omitted, parses to its
components (missing ones read as 0). -/
theorem semver_parse_render (p : SemVerM.Parts) (h : p.Valid) : SemVerM.parseBytes p.render =
    some { major := p.major, minor := p.minor.getD 0, patch := p.patch.getD 0,
           prerelease := SemVerM.str (SemVerM.joinDots p.pre), build := SemVerM.str (SemVerM.joinDots p.build) } :=
  SemVerM.parse_render p h

/-- On rendered versions the engine's comparison is the §11 precedence written declaratively
(`Spec.compare`, with `Spec.compare a b = -1 ↔ precLt a b`). Numeric prerelease identifiers must
fit in int64: go-semver parses them with wrapping arithmetic (a machine-checked counterexample is
`SemVerM.Examples.compare_spec_unbounded_counterexample`), which is behaviour of the external
library, outside what the property fixes. -/
theorem semver_compare_is_precedence (p q : SemVerM.Parts) (hp : p.Valid) (hq : q.Valid)
    (bp : p.PreBounded) (bq : q.PreBounded) (vp vq : SemVer)
    (h1 : SemVerM.parseBytes p.render = some vp) (h2 : SemVerM.parseBytes q.render = some vq) :
    SemVerM.compare vp vq = SemVerM.Spec.compare p q :=
  SemVerM.compare_spec_corrected p q hp hq bp bq vp vq h1 h2

/-- Precedence is a total preorder on parsed versions; build metadata never matters. -/
theorem semver_refl (v : SemVer) : SemVerM.compare v v = 0 := SemVerM.compare_refl v
theorem semver_antisymm (a b : SemVer) : SemVerM.compare a b = - SemVerM.compare b a :=
  SemVerM.compare_antisymm a b
theorem semver_build_ignored (a b : SemVer) (x : String) :
    SemVerM.compare { a with build := x } b = SemVerM.compare a b := SemVerM.compare_build_ignored a b x
theorem semver_trans_parsed (x y z : List UInt8) (a b c : SemVer)
    (ha : SemVerM.parseBytes x = some a) (hb : SemVerM.parseBytes y = some b) (hc : SemVerM.parseBytes z = some c)
    (h1 : SemVerM.compare a b ≤ 0) (h2 : SemVerM.compare b c ≤ 0) : SemVerM.compare a c ≤ 0 :=
  SemVerM.compare_trans_parsed x y z a b c ha hb hc h1 h2
/-- Unparseable operands: anything with a NUL or non-ASCII byte, a leading zero, an empty
component, … is rejected, hence never satisfies a semVer operator. -/
theorem semver_nonascii_rejected (inp : List UInt8) (h : ¬ SemVerM.Ascii inp) : SemVerM.parseBytes inp = none :=
  SemVerM.nonascii_rejected inp h

/-! ## Strengthened statements (theorem audit) -/

section audit
open ClauseEval

/-! ### (#12) The semantic-version parser as an exact partial function

`semver_parse_render` is "every well-formed version string parses".  The converse was missing: a
parser that also accepted `"v1.0.0"` or `"01.0.0"` contradicted only `decide`d examples.  The proofs
are in `Proofs/AuditSemVer.lean`.

The statement the audit proposed (`parseBytes inp = some v ↔ ∃ p, p.Valid ∧ …`) is FALSE of the
model, and of go-semver: `Parts.Valid` bounds the three numbers by `2^63`, but
`parsePositiveNumericString` accumulates `n = n*10 + digit` on a Go `int` without an overflow check,
so a digit string of any length is accepted and its value wraps (`semver_valid_iff_is_false`).  The
exact statement uses the grammar without the bounds (`Parts.Syntax`) and the wrapped numbers
(`Parts.value`); for strings of at most 18 bytes nothing can wrap and the audit's form holds
(`semver_parse_exact_short`). -/

/-- go-semver's `ParseAs(s, ParseModeAllowMissingMinorAndPatch)` returns `v` exactly when `s` is
`M[.m[.p]][-pre.ids][+build.ids]` — canonical decimal numbers (no leading zero) of any length,
non-empty `[0-9A-Za-z-]` identifiers, numeric prerelease identifiers without leading zero — and then
`v` holds the numbers reduced to a Go `int`, omitted minor / patch as 0, and the prerelease / build
strings verbatim.  Nothing else parses. -/
theorem semver_parse_exact (inp : List UInt8) (v : SemVer) :
    SemVerM.parseBytes inp = some v ↔
      ∃ p : SemVerM.Parts, p.Syntax ∧ inp = p.render ∧ v = p.value :=
  SemVerM.parseBytes_eq_some_iff inp v

/-- On strings of at most 18 bytes: exactly the renderings of `Valid` versions parse, to the
numbers as written (the analogue of `C18.parse_exact`). -/
theorem semver_parse_exact_short (inp : List UInt8) (v : SemVer) (hlen : inp.length ≤ 18) :
    SemVerM.parseBytes inp = some v ↔
      ∃ p : SemVerM.Parts, p.Valid ∧ inp = p.render ∧
        v = { major := p.major, minor := p.minor.getD 0, patch := p.patch.getD 0,
              prerelease := SemVerM.str (SemVerM.joinDots p.pre),
              build := SemVerM.str (SemVerM.joinDots p.build) } :=
  SemVerM.parseBytes_eq_some_iff_valid inp v hlen

/-- The accepted strings are a decidable set (`SemVerM.Accepted`, the renderings of the grammar),
and a string outside it never parses — hence never satisfies a semVer operator
(`sat_semver_operands`). -/
theorem semver_not_accepted_rejected (inp : List UInt8) (h : ¬ SemVerM.Accepted inp) :
    SemVerM.parseBytes inp = none :=
  SemVerM.not_accepted_rejected inp h

theorem semver_accepted_iff (inp : List UInt8) :
    SemVerM.Accepted inp ↔ (SemVerM.parseBytes inp).isSome = true :=
  SemVerM.accepted_iff inp

/-- COUNTEREXAMPLE to the bounded form of the iff: `"18446744073709551616"` (2^64) parses — to
major 0 — although it is the rendering of no `Valid` version.  Go input: a clause
`semVerEqual "0.0.0"` matches a context whose version attribute is `"18446744073709551616.0.0"`
(behaviour of the external library go-semver, which LaunchDarkly's operators inherit). -/
theorem semver_valid_iff_is_false :
    ¬ ∀ (inp : List UInt8) (v : SemVer), SemVerM.parseBytes inp = some v ↔
      ∃ p : SemVerM.Parts, p.Valid ∧ inp = p.render ∧
        v = { major := p.major, minor := p.minor.getD 0, patch := p.patch.getD 0,
              prerelease := SemVerM.str (SemVerM.joinDots p.pre),
              build := SemVerM.str (SemVerM.joinDots p.build) } := by
  intro h
  obtain ⟨p, hp, he, -⟩ := (h _ _).1 SemVerM.Examples.two_pow_64_parses
  exact SemVerM.Examples.two_pow_64_not_valid ⟨p, hp, he⟩

example : SemVerM.Examples.cmpB (SemVerM.Examples.b "18446744073709551616.0.0")
    (SemVerM.Examples.b "0.0.0") = some 0 := by decide +kernel
example : ¬ SemVerM.Accepted (SemVerM.Examples.b "v1.0.0") := by decide +kernel
example : ¬ SemVerM.Accepted (SemVerM.Examples.b "01.0.0") := by decide +kernel
example : SemVerM.Accepted (SemVerM.Examples.b "2.1-rc.1+x") := by decide +kernel

/-- A semVer operator is satisfied only by two STRINGS that are both in the grammar: unparseable
operands never satisfy it. -/
theorem sat_semver_operands (op : String)
    (hop : op = "semVerEqual" ∨ op = "semVerLessThan" ∨ op = "semVerGreaterThan") (u v : J)
    (h : Sat rx op u v) :
    ∃ s t, u.unraw = .str s ∧ v.unraw = .str t ∧
      SemVerM.Accepted s.toUTF8.toList ∧ SemVerM.Accepted t.toUTF8.toList := by
  have key : ∀ a b, parseSemVer u = some a → parseSemVer v = some b →
      ∃ s t, u.unraw = .str s ∧ v.unraw = .str t ∧
        SemVerM.Accepted s.toUTF8.toList ∧ SemVerM.Accepted t.toUTF8.toList := by
    intro a b ha hb
    obtain ⟨s, hs, hps⟩ := (parseSemVer_eq_some_iff u a).1 ha
    obtain ⟨t, ht, hpt⟩ := (parseSemVer_eq_some_iff v b).1 hb
    refine ⟨s, t, hs, ht, (SemVerM.accepted_iff _).2 ?_, (SemVerM.accepted_iff _).2 ?_⟩
    · unfold SemVerM.parse at hps; rw [hps]; rfl
    · unfold SemVerM.parse at hpt; rw [hpt]; rfl
  rcases hop with rfl | rfl | rfl
  · obtain ⟨a, b, ha, hb, -⟩ := (sat_semVerEqual rx u v).1 h; exact key a b ha hb
  · obtain ⟨a, b, ha, hb, -⟩ := (sat_semVerLessThan rx u v).1 h; exact key a b ha hb
  · obtain ⟨a, b, ha, hb, -⟩ := (sat_semVerGreaterThan rx u v).1 h; exact key a b ha hb

example : Sat rx "semVerLessThan" (.str "2.0") (.str "2.0.1") := by
  rw [sat_semVerLessThan]
  exact ⟨{ major := 2 }, { major := 2, patch := 1 }, by decide +kernel, by decide +kernel,
    by decide +kernel⟩

/-! ### (#13) The three substring operators, declaratively

(On the characters of the strings.  Go compares bytes; for valid UTF-8 the two agree, UTF-8 being
self-synchronising.) -/

/-- `startsWith`: the clause value is an initial piece of the context value (`strings.HasPrefix`). -/
theorem strHasPrefix_iff (a b : String) :
    strHasPrefix a b = true ↔ ∃ q, a.toList = b.toList ++ q := by
  unfold strHasPrefix
  rw [List.isPrefixOf_iff_prefix]
  constructor
  · rintro ⟨q, hq⟩; exact ⟨q, hq.symm⟩
  · rintro ⟨q, hq⟩; exact ⟨q, hq.symm⟩

/-- `endsWith`: the clause value is a final piece of the context value (`strings.HasSuffix`). -/
theorem strHasSuffix_iff (a b : String) :
    strHasSuffix a b = true ↔ ∃ p, a.toList = p ++ b.toList := by
  unfold strHasSuffix
  rw [List.isSuffixOf_iff_suffix]
  constructor
  · rintro ⟨p, hp⟩; exact ⟨p, hp.symm⟩
  · rintro ⟨p, hp⟩; exact ⟨p, hp.symm⟩

theorem listIsInfix_iff (needle hay : List Char) :
    listIsInfix needle hay = true ↔ ∃ p q, hay = p ++ needle ++ q := by
  induction hay with
  | nil =>
    simp only [listIsInfix, List.isEmpty_iff]
    constructor
    · rintro rfl; exact ⟨[], [], rfl⟩
    · rintro ⟨p, q, h⟩
      have := congrArg List.length h
      simp only [List.length_nil, List.length_append] at this
      exact List.length_eq_zero_iff.mp (by omega)
  | cons x rest ih =>
    simp only [listIsInfix, Bool.or_eq_true, List.isPrefixOf_iff_prefix, ih]
    constructor
    · rintro (⟨q, hq⟩ | ⟨p, q, h⟩)
      · exact ⟨[], q, by simpa using hq.symm⟩
      · exact ⟨x :: p, q, by rw [h]; rfl⟩
    · rintro ⟨p, q, h⟩
      cases p with
      | nil => left; exact ⟨q, by simpa using h.symm⟩
      | cons y p =>
        right
        simp only [List.cons_append, List.cons.injEq] at h
        exact ⟨p, q, h.2⟩

/-- `contains`: the clause value occurs somewhere in the context value (`strings.Contains`). -/
theorem strContains_iff (a b : String) :
    strContains a b = true ↔ ∃ p q, a.toList = p ++ b.toList ++ q :=
  listIsInfix_iff _ _

example : strContains "feature-flags" "re-fl" = true :=
  (strContains_iff _ _).2 ⟨"featu".toList, "ags".toList, by decide⟩

/-! ### (#11) Addressing: a literal name without context kind, a path with one -/

theorem newLiteral_errOf (name : String) (h : name ≠ "") : (Ref.newLiteral name).errOf = none := by
  have hne : (name == "") = false := by simpa using h
  unfold Ref.newLiteral
  simp only [hne, Bool.false_eq_true, if_false]
  split
  · simp [Ref.errOf]
  · simp [Ref.errOf, hne]

theorem newLiteral_component (name : String) (h : name ≠ "") :
    (Ref.newLiteral name).component 0 = name ∧ (Ref.newLiteral name).comps = [] := by
  have hne : (name == "") = false := by simpa using h
  unfold Ref.newLiteral
  simp only [hne, Bool.false_eq_true, if_false]
  split <;> simp [Ref.component]

/-- A clause WITHOUT a context kind addresses its attribute by LITERAL NAME: the decoder turns the
string into `ldattr.NewLiteralRef`, and the value read from a context is the top-level attribute of
exactly that name (no path syntax: `"/a/b"` is the attribute called `/a/b`). -/
theorem addressing_literal (name : String) (h : name ≠ "") (sc : SCtx) :
    sc.valueForRef (Codec.attrNameOrRef name "") = (sc.topLevel name).getD .null := by
  have hne : (name == "") = false := by simpa using h
  have e : Codec.attrNameOrRef name "" = Ref.newLiteral name := by
    simp [Codec.attrNameOrRef, hne]
  obtain ⟨h1, h2⟩ := newLiteral_component name h
  rw [e]
  unfold SCtx.valueForRef
  rw [newLiteral_errOf name h, h1, h2]
  cases sc.topLevel name <;> simp [SCtx.descend]

/-- A clause WITH a context kind addresses its attribute by PATH: the decoder turns the string into
`ldattr.NewRef` (slash-separated, `~0`/`~1` escapes); an empty string reads nothing either way. -/
theorem addressing_path (s ck : String) (h : ck ≠ "") (sc : SCtx) :
    sc.valueForRef (Codec.attrNameOrRef s ck) = sc.valueForRef (Ref.newRef s) := by
  have hck : (ck == "") = false := by simpa using h
  by_cases hs : s = ""
  · subst hs
    simp [Codec.attrNameOrRef, SCtx.valueForRef, Ref.newRef, Ref.errOf]
  · have hne : (s == "") = false := by simpa using hs
    simp [Codec.attrNameOrRef, hne, hck]

/-- ADDRESSING, both halves in one statement (the `C04.addressing` of DESIGN.md): what a clause
whose attribute string is `s` and whose context kind is `ck` reads from an individual context. -/
theorem addressing (s ck : String) (sc : SCtx) :
    sc.valueForRef (Codec.attrNameOrRef s ck) =
      if ck = "" then (if s = "" then .null else (sc.topLevel s).getD .null)
      else sc.valueForRef (Ref.newRef s) := by
  by_cases hck : ck = ""
  · subst hck
    by_cases hs : s = ""
    · subst hs; simp [Codec.attrNameOrRef, SCtx.valueForRef, Ref.errOf]
    · simp only [if_true, hs, if_false]; exact addressing_literal s hs sc
  · simp only [hck, if_false]; exact addressing_path s ck hck sc

/-- The same string read both ways: without a context kind `"/a/b"` is the attribute named `/a/b`,
with one it is member `b` of attribute `a`. -/
example :
    let sc : SCtx := { kind := "user", key := "k",
                       attrs := [("/a/b", .num 1), ("a", .obj [("b", .num 2)])] }
    sc.valueForRef (Codec.attrNameOrRef "/a/b" "") = .num 1 ∧
    sc.valueForRef (Codec.attrNameOrRef "/a/b" "user") = .num 2 := by
  refine ⟨?_, ?_⟩
  · rw [addressing_literal _ (by decide)]; rfl
  · rw [addressing_path _ _ (by decide)]; rfl

/-! ### (#10) Clause semantics as statements about what `evaluate` returns

`AtClause env f pre r post cpre c cpost` (`Proofs/AuditClauseEval.lean`) says that the evaluation of
flag `f` arrives at clause `c` of its rule number `pre.length`: valid context, targeting on,
prerequisites met, no individual target, every earlier rule a plain non-match, every earlier clause
of the rule a match.  `RuleMatchAt env f i` says `evaluate env f` answered RULE_MATCH with rule
index `i`; `Malformed env f` that it answered MALFORMED_FLAG (error reason, no index, null value). -/

variable {env : Env} {f : Flag} {pre post : List FlagRule} {r : FlagRule}
  {cpre cpost : List Clause} {c : Clause}

theorem bad_attr_errs (ctx : Ctx) (c : Clause)
    (hbad : c.attr.isDefined = false ∨ c.attr.errOf.isSome = true) :
    ∃ e, clauseMatchNoSeg rx ctx c = .error e := by
  by_cases hd : c.attr.isDefined = true
  · rcases hbad with hb | hb
    · rw [hb] at hd; cases hd
    · exact ⟨_, malformed_invalid rx c ctx hd hb⟩
  · exact ⟨_, malformed_undefined rx c ctx (by simpa using hd)⟩

/-- REACHING A NON-SEGMENT CLAUSE WHOSE ATTRIBUTE IS UNDEFINED OR SYNTACTICALLY INVALID MAKES THE
EVALUATION MALFORMED_FLAG — at `evaluate`: error reason of kind MALFORMED_FLAG, no variation index,
null value; the rule's later clauses, the later rules and the fallthrough are not used. -/
theorem evaluate_bad_attr (h : AtClause env f pre r post cpre c cpost)
    (hop : c.op ≠ "segmentMatch")
    (hbad : c.attr.isDefined = false ∨ c.attr.errOf.isSome = true) : Malformed env f := by
  obtain ⟨e, he⟩ := bad_attr_errs env.rx env.ctx c hbad
  exact h.errored (e := e) (by rw [C05.other_clause_in_rule _ _ _ c hop, he]; rfl)

/-- The same for such a clause inside a SEGMENT rule.  The flag's clause `c` is `segmentMatch`; the
values before `k` contribute nothing; `k` names the stored regular segment `s`, the context is on
none of its lists; the rules of `s` before `sr` do not match, the clauses of `sr` before `bad` match,
and `bad` (not a segment clause) has an undefined or invalid attribute reference: `evaluate`
answers MALFORMED_FLAG.  (Nested membership is `evaluate`'s own function `topSeg env`, one
relation at every depth: `C05.member_fixpoint`.) -/
theorem evaluate_bad_attr_in_segment (h : AtClause env f pre r post cpre c cpost)
    (hop : c.op = "segmentMatch") {vpre vpost : List J} {k : String} {s : Segment}
    (hvals : c.values = vpre ++ .str k :: vpost)
    (hvpre : ∀ k', J.str k' ∈ vpre → C05.NoMatch (topSeg env) env [] k')
    (hs : env.store.findSegment k = some s)
    (hu : s.unbounded = false) (hl : segLists env.ctx s = none)
    {spre spost : List SegmentRule} {sr : SegmentRule} (hrules : s.rules = spre ++ sr :: spost)
    (hspre : ∀ q ∈ spre, Spec.segRuleMatch (topSeg env) env [s.key] s.key s.salt q = .ok false)
    {bpre bpost : List Clause} {bad : Clause} (hcl : sr.clauses = bpre ++ bad :: bpost)
    (hbpre : ∀ q ∈ bpre, Spec.clauseMatch (topSeg env) env [s.key] q = .ok true)
    (hbop : bad.op ≠ "segmentMatch")
    (hbad : bad.attr.isDefined = false ∨ bad.attr.errOf.isSome = true) :
    Malformed env f := by
  obtain ⟨e, he⟩ := bad_attr_errs env.rx env.ctx bad hbad
  have h1 : Spec.clauseMatch (topSeg env) env [s.key] bad = .err e := by
    rw [C05.other_clause_in_rule _ _ _ bad hbop, he]; rfl
  have h2 : Spec.segRuleMatch (topSeg env) env [s.key] s.key s.salt sr = .err e := by
    unfold Spec.segRuleMatch
    rw [hcl, clausesMatch_at_err bpre bad bpost e hbpre h1]
  have h3 : Spec.segRules (topSeg env) env [s.key] s s.rules = .err (.malformedSegment s.key e) := by
    rw [hrules]; exact C05.rules_first_error (topSeg env) env [s.key] s spre spost sr e hspre h2
  have h4 : topSeg env s [] = .err (.malformedSegment s.key e) := by
    rw [topSeg_fixpoint env List.nodup_nil (by simp) s (findSegment_ownKey hs),
      C05.regular_iff (topSeg env) env s [] hu (by simp), hl]
    exact h3
  exact C05.evaluate_segment_clause_err h hop hvals hvpre hs h4

/-- A CLAUSE ON AN ORDINARY ATTRIBUTE, AT `evaluate`.  With the rule's other clauses matching and
the rule serving a fixed valid variation, `evaluate` answers RULE_MATCH for that rule iff the
context of the clause's kind exists, has the attribute (non-null), and
`negate ⊻ (some element of the attribute value — the value itself unless it is an array — and some
clause value satisfy the operator under the typed table Sat)`.  So several clause values are a
disjunction, an array attribute is a disjunction over its elements, negation inverts only when the
attribute exists. -/
theorem evaluate_clause_iff (h : AtClause env f pre r post cpre c cpost)
    (hafter : ∀ q ∈ cpost, Spec.clauseMatch (topSeg env) env [] q = .ok true)
    {v : Int} (hv : r.vr.variation = some v) (h0 : 0 ≤ v) (h1 : v < f.variations.length)
    (hop : c.op ≠ "segmentMatch") (hdef : c.attr.isDefined = true) (herr : c.attr.errOf = none)
    (hk : c.attr.raw ≠ "kind") (hpre : c.pre = {}) (hrx : c.op = "matches" → Coherent env.rx) :
    RuleMatchAt env f pre.length ↔
      ∃ sc, env.ctx.byKind c.contextKind = some sc ∧ (sc.valueForRef c.attr).unraw ≠ .null ∧
        (c.negate = false ↔
          ∃ u ∈ elems (sc.valueForRef c.attr), ∃ w ∈ c.values, Sat env.rx c.op u w) := by
  rw [h.ruleMatch_iff hafter hv h0 h1, C05.other_clause_in_rule _ _ _ c hop]
  obtain ⟨b, hb, hiff⟩ := clause_iff env.rx c env.ctx hdef herr hk hpre hrx
  rw [hb, ← hiff]
  simp [Res.ofExcept]

/-- The same for a clause that went through preprocessing (C14): the tables do not show. -/
theorem evaluate_clause_iff_preprocessed
    (h : AtClause env f pre r post cpre { c with pre := preprocessClause env.rx c } cpost)
    (hafter : ∀ q ∈ cpost, Spec.clauseMatch (topSeg env) env [] q = .ok true)
    {v : Int} (hv : r.vr.variation = some v) (h0 : 0 ≤ v) (h1 : v < f.variations.length)
    (hop : c.op ≠ "segmentMatch") (hdef : c.attr.isDefined = true) (herr : c.attr.errOf = none)
    (hk : c.attr.raw ≠ "kind") (hrx : c.op = "matches" → Coherent env.rx) :
    RuleMatchAt env f pre.length ↔
      ∃ sc, env.ctx.byKind c.contextKind = some sc ∧ (sc.valueForRef c.attr).unraw ≠ .null ∧
        (c.negate = false ↔
          ∃ u ∈ elems (sc.valueForRef c.attr), ∃ w ∈ c.values, Sat env.rx c.op u w) := by
  rw [h.ruleMatch_iff hafter hv h0 h1,
    C05.other_clause_in_rule _ _ _ { c with pre := preprocessClause env.rx c } hop]
  obtain ⟨b, hb, hiff⟩ := clause_iff_preprocessed env.rx c env.ctx hdef herr hk hrx
  rw [hb, ← hiff]
  simp [Res.ofExcept]

/-- … and when the clause matches, `evaluate` serves exactly that rule's variation, with
RULE_MATCH, the rule's index and id. -/
theorem evaluate_clause_serves (h : AtClause env f pre r post cpre c cpost)
    (hafter : ∀ q ∈ cpost, Spec.clauseMatch (topSeg env) env [] q = .ok true)
    {v : Int} (hv : r.vr.variation = some v) (h0 : 0 ≤ v) (h1 : v < f.variations.length)
    (hm : Spec.clauseMatch (topSeg env) env [] c = .ok true) :
    (evaluate env f).result.detail.value = f.variations.getD v.toNat .null ∧
    (evaluate env f).result.detail.index = some v ∧
    (evaluate env f).result.detail.reason.kind = .ruleMatch ∧
    (evaluate env f).result.detail.reason.ruleIndex = pre.length ∧
    (evaluate env f).result.detail.reason.ruleId = r.id := by
  refine h.toAtRule.matched_fixed ?_ hv h0 h1
  rw [h.clauses]
  exact (clausesMatch_at_iff cpre c cpost h.before hafter).2 hm

/-- A MISSING KIND OR ATTRIBUTE NEVER MATCHES, NEGATED OR NOT — at `evaluate`: when the context has
no individual context of the clause's kind, or that context lacks the attribute (null, also as
unparsed text), `evaluate` does not answer RULE_MATCH for the rule, whatever `negate` is and
whatever the rule's other clauses and variation are. -/
theorem evaluate_missing_attr_never_matches (h : AtClause env f pre r post cpre c cpost)
    (hop : c.op ≠ "segmentMatch") (hdef : c.attr.isDefined = true) (herr : c.attr.errOf = none)
    (hk : c.attr.raw ≠ "kind")
    (hmiss : ∀ sc, env.ctx.byKind c.contextKind = some sc → (sc.valueForRef c.attr).unraw = .null) :
    ¬ RuleMatchAt env f pre.length := by
  apply h.not_matched
  rw [C05.other_clause_in_rule _ _ _ c hop]
  cases hsc : env.ctx.byKind c.contextKind with
  | none => rw [missing_kind_no_match env.rx c env.ctx hdef herr hk hsc]; rfl
  | some sc => rw [null_attr_no_match env.rx c env.ctx sc hdef herr hk hsc (hmiss sc hsc)]; rfl

/-- NEGATION INVERTS THE OUTCOME WHEN THE ATTRIBUTE EXISTS — at `evaluate`: with the attribute
present, RULE_MATCH for the rule iff `negate ⊻ (some (element, clause value) pair satisfies the
operator)`. -/
theorem evaluate_present_attr_iff (h : AtClause env f pre r post cpre c cpost)
    (hafter : ∀ q ∈ cpost, Spec.clauseMatch (topSeg env) env [] q = .ok true)
    {v : Int} (hv : r.vr.variation = some v) (h0 : 0 ≤ v) (h1 : v < f.variations.length)
    (hop : c.op ≠ "segmentMatch") (hdef : c.attr.isDefined = true) (herr : c.attr.errOf = none)
    (hk : c.attr.raw ≠ "kind") (hpre : c.pre = {}) (hrx : c.op = "matches" → Coherent env.rx)
    {sc : SCtx} (hsc : env.ctx.byKind c.contextKind = some sc)
    (hpres : (sc.valueForRef c.attr).unraw ≠ .null) :
    RuleMatchAt env f pre.length ↔
      (c.negate = false ↔
        ∃ u ∈ elems (sc.valueForRef c.attr), ∃ w ∈ c.values, Sat env.rx c.op u w) := by
  rw [evaluate_clause_iff h hafter hv h0 h1 hop hdef herr hk hpre hrx]
  constructor
  · rintro ⟨sc', hsc', -, hiff⟩
    rw [hsc] at hsc'; cases hsc'; exact hiff
  · intro hiff; exact ⟨sc, hsc, hpres, hiff⟩

/-- ATTRIBUTE `kind` TESTS EVERY KIND PRESENT IN THE CONTEXT — at `evaluate`: RULE_MATCH for the
rule iff `negate ⊻ (some kind of the context and some clause value satisfy the operator)`; the
clause's own `contextKind` is not consulted. -/
theorem evaluate_kind_clause_iff (h : AtClause env f pre r post cpre c cpost)
    (hafter : ∀ q ∈ cpost, Spec.clauseMatch (topSeg env) env [] q = .ok true)
    {v : Int} (hv : r.vr.variation = some v) (h0 : 0 ≤ v) (h1 : v < f.variations.length)
    (hop : c.op ≠ "segmentMatch") (hk : c.attr.raw = "kind") (herr : c.attr.errOf = none)
    (hpre : c.pre = {}) (hrx : c.op = "matches" → Coherent env.rx) :
    RuleMatchAt env f pre.length ↔
      (c.negate = false ↔
        ∃ k ∈ kindsOf env.ctx, ∃ w ∈ c.values, Sat env.rx c.op (.str k) w) := by
  rw [h.ruleMatch_iff hafter hv h0 h1, C05.other_clause_in_rule _ _ _ c hop]
  obtain ⟨b, hb, hiff⟩ := kind_clause_iff env.rx c env.ctx hk herr hpre hrx
  rw [hb, ← hiff]
  simp [Res.ofExcept]

/-- UNKNOWN OPERATORS NEVER MATCH — at `evaluate`: with the attribute present and an operator name
outside the table, RULE_MATCH for the rule iff the clause is negated. -/
theorem evaluate_unknown_op (h : AtClause env f pre r post cpre c cpost)
    (hafter : ∀ q ∈ cpost, Spec.clauseMatch (topSeg env) env [] q = .ok true)
    {v : Int} (hv : r.vr.variation = some v) (h0 : 0 ≤ v) (h1 : v < f.variations.length)
    (hop : c.op ∉ opNames) (hseg : c.op ≠ "segmentMatch")
    (hdef : c.attr.isDefined = true) (herr : c.attr.errOf = none)
    (hk : c.attr.raw ≠ "kind") (hpre : c.pre = {})
    {sc : SCtx} (hsc : env.ctx.byKind c.contextKind = some sc)
    (hpres : (sc.valueForRef c.attr).unraw ≠ .null) :
    RuleMatchAt env f pre.length ↔ c.negate = true := by
  have hm : c.op = "matches" → Coherent env.rx := by
    intro e; exact absurd (by rw [e]; decide) hop
  rw [evaluate_present_attr_iff h hafter hv h0 h1 hseg hdef herr hk hpre hm hsc hpres]
  have : ¬ ∃ u ∈ elems (sc.valueForRef c.attr), ∃ w ∈ c.values, Sat env.rx c.op u w := by
    rintro ⟨u, -, w, -, hs⟩; exact sat_unknown env.rx c.op hop u w hs
  rw [iff_false_intro this]
  cases c.negate <;> simp

end audit

/-! ### Non-vacuity of the `evaluate`-level statements -/

namespace AuditEx
open ClauseEval

/-- A `user` context with a name, an array attribute and no `email`. -/
def ctx : Ctx := .single { kind := "user", key := "k", name := some "Bob",
                           attrs := [("groups", .arr [.str "dev", .str "ops"])] }
def envOf : Env := { opts := {}, store := {}, bs := none, ctx := ctx, rx := fun _ _ => none }

def clauseOn (attr : String) (vals : List J) (neg : Bool) : Clause :=
  { attr := { raw := attr, single := attr }, op := "in", values := vals, negate := neg }

/-- Rule 0 asks for kind `org` (absent): non-match.  Rule 1 has the clause under test between two
clauses that match. -/
def probe (c : Clause) : Flag :=
  { key := "probe", on := true, variations := [.bool false, .bool true],
    fallthrough := { variation := some 0 },
    rules := [ { id := "r0", vr := { variation := some 0 },
                 clauses := [{ clauseOn "key" [.str "x"] false with contextKind := "org" }] },
               { id := "r1", vr := { variation := some 1 },
                 clauses := [clauseOn "name" [.str "Bob"] false, c,
                             clauseOn "key" [.str "k"] false] } ] }

theorem probe_atClause (c : Clause) : AtClause envOf (probe c)
    [{ id := "r0", vr := { variation := some 0 },
       clauses := [{ clauseOn "key" [.str "x"] false with contextKind := "org" }] }]
    { id := "r1", vr := { variation := some 1 },
      clauses := [clauseOn "name" [.str "Bob"] false, c, clauseOn "key" [.str "k"] false] } []
    [clauseOn "name" [.str "Bob"] false] c [clauseOn "key" [.str "k"] false] where
  reaches := ReachesRules.of_no_prereqs (by simp [envOf, ctx]) rfl rfl rfl
  rules := rfl
  skipped := by intro q hq; rw [List.mem_singleton.1 hq]; rfl
  clauses := rfl
  before := by intro q hq; rw [List.mem_singleton.1 hq]; rfl

theorem probe_after : ∀ q ∈ [clauseOn "key" [.str "k"] false],
    Spec.clauseMatch (topSeg envOf) envOf [] q = .ok true := by
  intro q hq; rw [List.mem_singleton.1 hq]; rfl

/-- `evaluate_clause_iff` instantiated: an array attribute, two clause values — a disjunction over
both; the right-hand side holds (element `"ops"`, value `"ops"`), so `evaluate` answers RULE_MATCH
for rule 1. -/
example : RuleMatchAt envOf (probe (clauseOn "groups" [.str "qa", .str "ops"] false)) 1 :=
  (evaluate_clause_iff (probe_atClause _) probe_after (v := 1) rfl (by decide) (by decide)
      (by decide) rfl rfl (by decide) rfl (by intro e; exact absurd e (by decide))).2
    ⟨{ kind := "user", key := "k", name := some "Bob",
       attrs := [("groups", .arr [.str "dev", .str "ops"])] }, rfl,
      (by change (J.arr [.str "dev", .str "ops"]).unraw ≠ .null; intro e; cases e), by
      change (false = false ↔ ∃ u ∈ [J.str "dev", J.str "ops"], ∃ w ∈ [J.str "qa", J.str "ops"],
        Sat (fun _ _ => none) "in" u w)
      simp only [true_iff]
      exact ⟨.str "ops", by simp, .str "ops", by simp, by simp [Sat]⟩⟩

/-- The same computed by the model. -/
example : (evaluate envOf (probe (clauseOn "groups" [.str "qa", .str "ops"] false))
    ).result.detail.reason.kind = .ruleMatch ∧
    (evaluate envOf (probe (clauseOn "groups" [.str "qa", .str "ops"] false))
    ).result.detail.reason.ruleIndex = 1 ∧
    (evaluate envOf (probe (clauseOn "groups" [.str "qa", .str "ops"] false))
    ).result.detail.index = some 1 := by decide

/-- `evaluate_missing_attr_never_matches` instantiated: `email` is absent, so no RULE_MATCH for
rule 1 — negated or not. -/
example (neg : Bool) : ¬ RuleMatchAt envOf (probe (clauseOn "email" [.str "x"] neg)) 1 :=
  evaluate_missing_attr_never_matches (probe_atClause _) (by simp [clauseOn]) rfl rfl
    (by simp [clauseOn])
    (by
      intro sc hsc
      simp only [envOf, ctx, Ctx.byKind, Ctx.individuals, clauseOn, normKind] at hsc
      simp at hsc
      obtain ⟨-, rfl⟩ := hsc; rfl)

example : (evaluate envOf (probe (clauseOn "email" [.str "x"] true))
    ).result.detail.reason.kind = .fallthrough := by decide

/-- `evaluate_bad_attr` instantiated: the clause under test has no attribute reference at all. -/
example : Malformed envOf (probe { op := "in", values := [.str "x"] }) :=
  evaluate_bad_attr (probe_atClause _) (by decide) (.inl rfl)

/-- … and an invalid reference (`//`, with a context kind). -/
example : Malformed envOf (probe { contextKind := "user", attr := Ref.newRef "//", op := "in" }) :=
  evaluate_bad_attr (probe_atClause _) (by decide) (.inr (by decide))

/-- `evaluate_kind_clause_iff` instantiated: a negated `kind in ["org"]` clause matches a `user`
context. -/
example : RuleMatchAt envOf (probe (clauseOn "kind" [.str "org"] true)) 1 :=
  (evaluate_kind_clause_iff (probe_atClause _) probe_after (v := 1) rfl (by decide) (by decide)
      (by decide) rfl rfl rfl (by intro e; exact absurd e (by decide))).2
    (by
      simp only [clauseOn, Bool.true_eq_false, false_iff, envOf, ctx, kindsOf]
      simp [Sat, Ctx.kind])

/-- `evaluate_unknown_op` instantiated: operator `"In"` (wrong case) on the present attribute
`name`; only the negated clause matches. -/
example : RuleMatchAt envOf
    (probe { clauseOn "name" [.str "Bob"] true with op := "In" }) 1 :=
  (evaluate_unknown_op (probe_atClause _) probe_after (v := 1) rfl (by decide) (by decide)
      (by decide) (by decide) rfl rfl (by decide) rfl
      (sc := { kind := "user", key := "k", name := some "Bob",
               attrs := [("groups", .arr [.str "dev", .str "ops"])] }) rfl
      (by change (J.str "Bob").unraw ≠ .null; intro e; cases e)).2 rfl

/-- `evaluate_present_attr_iff` instantiated with a negated clause whose values do not contain the
attribute value: it matches. -/
example : RuleMatchAt envOf (probe (clauseOn "name" [.str "Alice", .num 3] true)) 1 :=
  (evaluate_present_attr_iff (probe_atClause _) probe_after (v := 1) rfl (by decide) (by decide)
      (by decide) rfl rfl (by decide) rfl (by intro e; exact absurd e (by decide))
      (sc := { kind := "user", key := "k", name := some "Bob",
               attrs := [("groups", .arr [.str "dev", .str "ops"])] }) rfl
      (by change (J.str "Bob").unraw ≠ .null; intro e; cases e)).2
    (by
      change (true = false ↔ ∃ u ∈ [J.str "Bob"], ∃ w ∈ [J.str "Alice", J.num 3],
        Sat (fun _ _ => none) "in" u w)
      simp [Sat])

/-- `evaluate_clause_serves` instantiated: variation 1, RULE_MATCH, index 1, id `r1`. -/
example :
    (evaluate envOf (probe (clauseOn "name" [.str "Bob"] false))).result.detail.value = .bool true ∧
    (evaluate envOf (probe (clauseOn "name" [.str "Bob"] false))).result.detail.index = some 1 ∧
    (evaluate envOf (probe (clauseOn "name" [.str "Bob"] false))).result.detail.reason.kind
      = .ruleMatch ∧
    (evaluate envOf (probe (clauseOn "name" [.str "Bob"] false))).result.detail.reason.ruleIndex
      = 1 ∧
    (evaluate envOf (probe (clauseOn "name" [.str "Bob"] false))).result.detail.reason.ruleId
      = "r1" :=
  evaluate_clause_serves (probe_atClause _) probe_after (v := 1) rfl (by decide) (by decide) rfl

/-- `evaluate_clause_iff_preprocessed` instantiated: the same clause after preprocessing (its two
primitive values are in an equality table). -/
example : RuleMatchAt envOf
    (probe { clauseOn "groups" [.str "qa", .str "ops"] false with
             pre := preprocessClause envOf.rx (clauseOn "groups" [.str "qa", .str "ops"] false) }) 1 :=
  (evaluate_clause_iff_preprocessed (c := clauseOn "groups" [.str "qa", .str "ops"] false)
      (probe_atClause _) probe_after (v := 1) rfl (by decide) (by decide)
      (by decide) rfl rfl (by decide) (by intro e; exact absurd e (by decide))).2
    ⟨{ kind := "user", key := "k", name := some "Bob",
       attrs := [("groups", .arr [.str "dev", .str "ops"])] }, rfl,
      (by change (J.arr [.str "dev", .str "ops"]).unraw ≠ .null; intro e; cases e), by
      change (false = false ↔ ∃ u ∈ [J.str "dev", J.str "ops"], ∃ w ∈ [J.str "qa", J.str "ops"],
        Sat (fun _ _ => none) "in" u w)
      simp only [true_iff]
      exact ⟨.str "ops", by simp, .str "ops", by simp, by simp [Sat]⟩⟩

/-- A segment whose only rule has a clause without attribute, referenced from a flag rule. -/
def badSeg : Segment := { key := "bad", rules := [{ clauses := [{ op := "in" }] }] }
def envSeg : Env := { envOf with store := Store.ofLists [] [badSeg] }

theorem probe_atClause_seg (c : Clause) : AtClause envSeg (probe c)
    [{ id := "r0", vr := { variation := some 0 },
       clauses := [{ clauseOn "key" [.str "x"] false with contextKind := "org" }] }]
    { id := "r1", vr := { variation := some 1 },
      clauses := [clauseOn "name" [.str "Bob"] false, c, clauseOn "key" [.str "k"] false] } []
    [clauseOn "name" [.str "Bob"] false] c [clauseOn "key" [.str "k"] false] where
  reaches := ReachesRules.of_no_prereqs (by simp [envSeg, envOf, ctx]) rfl rfl rfl
  rules := rfl
  skipped := by intro q hq; rw [List.mem_singleton.1 hq]; rfl
  clauses := rfl
  before := by intro q hq; rw [List.mem_singleton.1 hq]; rfl

/-- `evaluate_bad_attr_in_segment` instantiated. -/
example : Malformed envSeg (probe { op := "segmentMatch", values := [.num 1, .str "bad"] }) :=
  evaluate_bad_attr_in_segment (probe_atClause_seg _) rfl (vpre := [.num 1]) (vpost := [])
    (k := "bad") (s := badSeg) rfl (by intro k' hk'; simp at hk') rfl rfl rfl
    (spre := []) (sr := { clauses := [{ op := "in" }] }) (spost := []) rfl
    (by intro q hq; cases hq) (bpre := []) (bad := { op := "in" }) (bpost := []) rfl
    (by intro q hq; cases hq) (by decide) (.inl rfl)

example : (evaluate envSeg (probe { op := "segmentMatch", values := [.num 1, .str "bad"] })
    ).result.detail.reason.errorKind = some .malformedFlag := by decide

/-- WHY `Malformed` DOES NOT SAY `reason = Reason.error .malformedFlag` (the form proposed by the
audit): the reason also carries the big-segments status, and an EARLIER rule may have consulted a
big segment.  Here rule 0 references an unbounded segment without generation (status
NOT_CONFIGURED, no match) and rule 1 has a clause without attribute: all hypotheses of
`evaluate_bad_attr` hold, the result is MALFORMED_FLAG, and the reason is not the bare error
reason. -/
def bigSeg : Segment := { key := "big", unbounded := true }
def envBig : Env := { envOf with store := Store.ofLists [] [bigSeg] }
def flagBig : Flag :=
  { key := "f", on := true, variations := [.bool false, .bool true],
    fallthrough := { variation := some 0 },
    rules := [ { id := "r0", vr := { variation := some 0 },
                 clauses := [{ op := "segmentMatch", values := [.str "big"] }] },
               { id := "r1", vr := { variation := some 1 }, clauses := [{ op := "in" }] } ] }

theorem flagBig_atClause : AtClause envBig flagBig
    [{ id := "r0", vr := { variation := some 0 },
       clauses := [{ op := "segmentMatch", values := [.str "big"] }] }]
    { id := "r1", vr := { variation := some 1 }, clauses := [{ op := "in" }] } []
    [] { op := "in" } [] where
  reaches := ReachesRules.of_no_prereqs (by simp [envBig, envOf, ctx]) rfl rfl rfl
  rules := rfl
  skipped := by intro q hq; rw [List.mem_singleton.1 hq]; rfl
  clauses := rfl
  before := by intro q hq; cases hq

example : Malformed envBig flagBig := evaluate_bad_attr flagBig_atClause (by decide) (.inl rfl)
example : (evaluate envBig flagBig).result.detail.reason =
    { Reason.error .malformedFlag with bigSegmentsStatus := some .notConfigured } := by decide
example : (evaluate envBig flagBig).result.detail.reason ≠ Reason.error .malformedFlag := by decide

end AuditEx

#print axioms semver_parse_exact
#print axioms semver_parse_exact_short
#print axioms semver_not_accepted_rejected
#print axioms semver_valid_iff_is_false
#print axioms sat_semver_operands
#print axioms strHasPrefix_iff
#print axioms strHasSuffix_iff
#print axioms strContains_iff
#print axioms addressing_literal
#print axioms addressing_path
#print axioms addressing
#print axioms evaluate_bad_attr
#print axioms evaluate_bad_attr_in_segment
#print axioms evaluate_clause_iff
#print axioms evaluate_clause_iff_preprocessed
#print axioms evaluate_clause_serves
#print axioms evaluate_missing_attr_never_matches
#print axioms evaluate_present_attr_iff
#print axioms evaluate_kind_clause_iff
#print axioms evaluate_unknown_op

end LD.C04

/-
  LDEval.Model.Data — the ldmodel data model: exported fields plus the optional preprocessed tables
  (which are part of the in-memory value in Go, and therefore part of it here).
-/
import LDEval.Model.Basic

namespace LD

/-- `semver.Version` -/
structure SemVer where
  major : Int := 0
  minor : Int := 0
  patch : Int := 0
  prerelease : String := ""
  build : String := ""
  deriving DecidableEq, Repr, Inhabited

/-- `jsonPrimitiveValueKey` (the null type marks "not a primitive"). -/
inductive PrimKey where
  | invalid
  | bool (b : Bool)
  | num (q : Rat)
  | str (s : String)
  deriving DecidableEq, Inhabited

/-- `clausePreprocessedValue`; the compiled regexp is represented by its source pattern, the
parsed time by its instant in nanoseconds since the Unix epoch. -/
structure PreVal where
  valid : Bool := false
  regex : Option String := none
  time : Int := -62135596800000000000   -- Go's zero time.Time
  semver : SemVer := {}
  deriving Inhabited

/-- `clausePreprocessedData`: `none` = nil slice / nil map. -/
structure ClausePre where
  values : Option (List PreVal) := none
  valuesMap : Option (List PrimKey) := none
  deriving Inhabited

structure Clause where
  contextKind : String := ""
  attr : Ref := {}
  op : String := ""
  values : List J := []
  negate : Bool := false
  pre : ClausePre := {}
  deriving Inhabited

structure WeightedVariation where
  variation : Int
  weight : Int
  untracked : Bool := false
  deriving DecidableEq, Repr, Inhabited

structure Rollout where
  kind : String := ""
  contextKind : String := ""
  variations : List WeightedVariation := []
  bucketBy : Ref := {}
  seed : Option Int := none
  deriving DecidableEq, Inhabited

def Rollout.isExperiment (r : Rollout) : Bool := r.kind == "experiment"

structure VariationOrRollout where
  variation : Option Int := none
  rollout : Rollout := {}
  deriving DecidableEq, Inhabited

/-- `Target`; `pre` is the preprocessed key set (`none` = nil map). -/
structure Target where
  contextKind : String := ""
  values : List String := []
  variation : Int := 0
  pre : Option (List String) := none
  deriving DecidableEq, Inhabited

structure Prereq where
  key : String
  variation : Int
  deriving DecidableEq, Repr, Inhabited

structure FlagRule where
  vr : VariationOrRollout := {}
  id : String := ""
  clauses : List Clause := []
  trackEvents : Bool := false
  deriving Inhabited

structure ClientSideAvailability where
  usingMobileKey : Bool := false
  usingEnvironmentID : Bool := false
  explicit : Bool := false
  deriving DecidableEq, Repr, Inhabited

/-- Flag metadata: everything evaluation must not depend on (C20) except `excludeFromSummaries`,
which is copied into prerequisite events. -/
structure FlagMeta where
  clientSide : ClientSideAvailability := {}
  trackEvents : Bool := false
  debugEventsUntilDate : Nat := 0     -- uint64 milliseconds
  version : Int := 0
  deleted : Bool := false
  migration : Option (Option Int) := none   -- nil | &{CheckRatio}
  samplingRatio : Option Int := none
  deriving DecidableEq, Inhabited

structure Flag where
  key : String := ""
  on : Bool := false
  prerequisites : List Prereq := []
  targets : List Target := []
  contextTargets : List Target := []
  rules : List FlagRule := []
  fallthrough : VariationOrRollout := {}
  offVariation : Option Int := none
  variations : List J := []
  salt : String := ""
  trackEventsFallthrough : Bool := false
  excludeFromSummaries : Bool := false
  fmeta : FlagMeta := {}
  deriving Inhabited

structure SegmentTarget where
  contextKind : String := ""
  values : List String := []
  pre : Option (List String) := none
  deriving DecidableEq, Inhabited

structure SegmentRule where
  id : String := ""
  clauses : List Clause := []
  weight : Option Int := none
  bucketBy : Ref := {}
  rolloutContextKind : String := ""
  deriving Inhabited

structure SegmentPre where
  includeMap : Option (List String) := none
  excludeMap : Option (List String) := none
  deriving DecidableEq, Inhabited

structure Segment where
  key : String := ""
  included : List String := []
  excluded : List String := []
  includedContexts : List SegmentTarget := []
  excludedContexts : List SegmentTarget := []
  salt : String := ""
  rules : List SegmentRule := []
  unbounded : Bool := false
  unboundedContextKind : String := ""
  version : Int := 0
  generation : Option Int := none
  deleted : Bool := false
  pre : SegmentPre := {}
  deriving Inhabited

/-- The `DataProvider`: a finite association list from LOOKUP keys to items.  `GetFeatureFlag k` /
`GetSegment k` return the item of the first entry whose lookup key is `k`; nothing forces the item's
OWN `key` field to equal the lookup key (the interface is implemented by the application). -/
structure Store where
  flags : List (String × Flag) := []
  segments : List (String × Segment) := []
  deriving Inhabited

def Store.findFlag (s : Store) (k : String) : Option Flag := (s.flags.find? (·.1 == k)).map (·.2)
def Store.findSegment (s : Store) (k : String) : Option Segment :=
  (s.segments.find? (·.1 == k)).map (·.2)

/-- The store that files every item under its own key. -/
def Store.ofLists (fs : List Flag) (ss : List Segment) : Store :=
  { flags := fs.map fun f => (f.key, f), segments := ss.map fun s => (s.key, s) }

/-- Every entry's lookup key equals its item's own key (what a well-behaved provider does; the
evaluator does not rely on it). -/
def StoreConsistent (s : Store) : Prop :=
  (∀ e ∈ s.flags, e.1 = e.2.key) ∧ (∀ e ∈ s.segments, e.1 = e.2.key)

/-- The item returned for lookup key `k` sits in an entry filed under `k`. -/
theorem Store.mem_of_findFlag {s : Store} {k : String} {pf : Flag} (h : s.findFlag k = some pf) :
    (k, pf) ∈ s.flags := by
  unfold Store.findFlag at h
  obtain ⟨e, he, rfl⟩ := Option.map_eq_some_iff.mp h
  have h1 : e.1 = k := by simpa using List.find?_some he
  subst h1
  exact List.mem_of_find?_eq_some he

theorem Store.mem_of_findSegment {s : Store} {k : String} {seg : Segment}
    (h : s.findSegment k = some seg) : (k, seg) ∈ s.segments := by
  unfold Store.findSegment at h
  obtain ⟨e, he, rfl⟩ := Option.map_eq_some_iff.mp h
  have h1 : e.1 = k := by simpa using List.find?_some he
  subst h1
  exact List.mem_of_find?_eq_some he

theorem Store.findFlag_mem {s : Store} {k : String} {pf : Flag} (h : s.findFlag k = some pf) :
    pf ∈ s.flags.map (·.2) :=
  List.mem_map.mpr ⟨_, Store.mem_of_findFlag h, rfl⟩

theorem Store.findSegment_mem {s : Store} {k : String} {seg : Segment}
    (h : s.findSegment k = some seg) : seg ∈ s.segments.map (·.2) :=
  List.mem_map.mpr ⟨_, Store.mem_of_findSegment h, rfl⟩

/-- `ldreason.BigSegmentsStatus`: in Go an arbitrary string.  The four constants the SDK defines
have their own constructors; every other NON-EMPTY string a `BigSegmentProvider` may return is
`other s`.  The empty string is Go's "no status" and is represented by `none : Option Status`
wherever a status may be absent (`St.status`, `BSAnswer.status`, `Reason.bigSegmentsStatus`);
`Status.ofString` / `Status.toString` are the two directions of that representation.
(`other ""` and `other "STALE"` etc. are junk values of the type that `Status.ofString` never
produces, see `Status.Canonical`.) -/
inductive Status where
  | healthy | stale | storeError | notConfigured
  | other (s : String)
  deriving DecidableEq, Repr, Inhabited

/-- The Go string of a status. -/
def Status.toString : Status → String
  | .healthy => "HEALTHY" | .stale => "STALE" | .storeError => "STORE_ERROR"
  | .notConfigured => "NOT_CONFIGURED" | .other s => s

/-- The Go string of a possibly absent status (`""` = no status). -/
def Status.optToString : Option Status → String
  | some s => s.toString
  | none => ""

/-- A Go `ldreason.BigSegmentsStatus` string as the model sees it: `""` is "no status", the four
constants are their constructors, anything else is `other s`. -/
def Status.ofString (s : String) : Option Status :=
  if s = "" then none
  else if s = "HEALTHY" then some .healthy else if s = "STALE" then some .stale
  else if s = "STORE_ERROR" then some .storeError
  else if s = "NOT_CONFIGURED" then some .notConfigured
  else some (.other s)

/-- One of the four constants the SDK defines. -/
def Status.isConstant : Status → Bool
  | .other _ => false
  | _ => true

/-- The values `Status.ofString` produces: `other s` only for a string that is neither empty nor
one of the four constants. -/
def Status.Canonical : Status → Prop
  | .other s => s ≠ "" ∧ s ≠ "HEALTHY" ∧ s ≠ "STALE" ∧ s ≠ "STORE_ERROR" ∧ s ≠ "NOT_CONFIGURED"
  | _ => True

/-- A `BigSegmentMembership`: `none` = nil interface; otherwise ref ↦ included?/excluded?. -/
abbrev Membership := Option (List (String × Bool))

/-- What `GetMembership` returns.  `status = none` is the Go status `""` (a provider is free to
return it). -/
structure BSAnswer where
  membership : Membership := none
  status : Option Status := some .healthy
  deriving Inhabited

/-- A `BigSegmentProvider` for the duration of one call: a table by context key plus the answer
for every other key. -/
structure BSProvider where
  table : List (String × BSAnswer) := []
  dflt : BSAnswer := {}
  deriving Inhabited

def BSProvider.get (p : BSProvider) (k : String) : BSAnswer := (p.table.lookup k).getD p.dflt

structure Opts where
  secondaryKey : Bool := false
  logger : Bool := false
  recorder : Bool := true
  deriving DecidableEq, Repr, Inhabited

end LD

/-
  LDEval.Model.Bucket — evaluator_bucketing.go: hash-input assembly in a LocalBuffer, SHA-1, first
  15 hex digits, single-precision division by longScale.
-/
import LDEval.Model.Clause
import LDEval.Model.Sha1
import LDEval.Model.SoftF32
import LDEval.Model.Buffer

namespace LD

/-- `bucketingFailureReason` -/
inductive BucketFail where
  | none | invalidAttrRef | contextLacksKind | attributeNotFound | attributeWrongType
  deriving DecidableEq, Repr, Inhabited

def BucketFail.code : BucketFail → Nat
  | .none => 0 | .invalidAttrRef => 1 | .contextLacksKind => 2
  | .attributeNotFound => 3 | .attributeWrongType => 4

def initialHashInputBufferSize : Nat := 100

/-- `longScale = float32(0xFFFFFFFFFFFFFFF)` -/
def longScale : Rat := SoftF32.ofInt 0xFFFFFFFFFFFFFFF

/-- The prefix of the hash input: `<seed>.` or `<key>.<salt>.` -/
def hashPrefix (buf : LocalBuffer) (seed : Option Int) (key salt : String) : LocalBuffer :=
  let b := match seed with
    | some s => buf.appendInt s
    | none => ((buf.appendString key).appendByte 46).appendString salt
  b.appendByte 46

/-- From the assembled hash input to the bucket value. -/
def bucketOfInput (input : List UInt8) : Rat :=
  let hexChars := Sha1.hexEncode (Sha1.sum input)
  let intVal : UInt64 := (parseHexU64 (hexChars.take 15)).getD 0
  SoftF32.div (SoftF32.ofInt intVal.toNat) longScale

/-- What `computeBucketValue` hashes, or why it does not hash: mirrors the Go function up to the
point where the buffer is complete. -/
def bucketInput (secondaryKey : Bool) (ctx : Ctx) (isExperiment : Bool) (seed : Option Int)
    (contextKind key : String) (attr : Ref) (salt : String) :
    Except EvalErr (Except BucketFail LocalBuffer) :=
  let buf := hashPrefix (LocalBuffer.new initialHashInputBufferSize) seed key salt
  let useKey := isExperiment || !attr.isDefined
  if !useKey && attr.errOf.isSome then .error (.badAttrRef attr.raw)
  else
    let attr := if useKey then Ref.newLiteral "key" else attr
    match ctx.byKind contextKind with
    | none => .ok (.error .contextLacksKind)
    | some sc =>
      let v := sc.valueForRef attr
      let r : Except BucketFail LocalBuffer :=
        -- `IsNull()`, `IsString()`/`StringValue()`, `IsInt()`/`IntValue()` all parse a raw value
        match v.unraw with
        | .null => .error .attributeNotFound
        | .str s => .ok (buf.appendString s)
        | .num q => if ratIsInt q then .ok (buf.appendInt (goInt q)) else .error .attributeWrongType
        | _ => .error .attributeWrongType
      match r with
      | .error e => .ok (.error e)
      | .ok buf =>
        if secondaryKey && !isExperiment then
          match sc.secondary with
          | some sec => .ok (.ok ((buf.appendByte 46).appendString sec))
          | none => .ok (.ok buf)
        else .ok (.ok buf)

/-- `computeBucketValue`: (bucket, failure reason) or a malformed-data error. -/
def computeBucket (secondaryKey : Bool) (ctx : Ctx) (isExperiment : Bool) (seed : Option Int)
    (contextKind key : String) (attr : Ref) (salt : String) : Except EvalErr (Rat × BucketFail) :=
  match bucketInput secondaryKey ctx isExperiment seed contextKind key attr salt with
  | .error e => .error e
  | .ok (.error f) => .ok (0, f)
  | .ok (.ok buf) => .ok (bucketOfInput buf.data, .none)

end LD

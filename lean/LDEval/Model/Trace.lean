/-
  LDEval.Model.Trace — an abstract shared-memory trace machine for property C13
  ("concurrent evaluations are safe and agree with sequential ones").

  Threads are sequences of memory accesses; a schedule is any interleaving.  Core Lean only.
-/

namespace LD.Trace

abbrev Loc := Nat
abbrev Val := Nat
abbrev Tid := Nat

/-- One memory access of a thread. -/
inductive Op where
  | read (l : Loc)
  | write (l : Loc) (v : Val)
  deriving DecidableEq, Repr, Inhabited

structure Sys where
  /-- each thread's accesses in program order -/
  progs : Tid → List Op
  /-- locations visible to several threads (flags, segments, preprocessed tables, evaluator fields) -/
  shared : Loc → Bool
  /-- for non-shared locations: the one thread that may touch it (its stack / per-call scope) -/
  owner : Loc → Tid

structure State where
  mem : Loc → Val
  /-- how many ops each thread has executed -/
  pc : Tid → Nat
  /-- the values each thread has read so far, in order -/
  obs : Tid → List Val

/-- The state every run starts from. -/
abbrev State.init (init : Loc → Val) : State := ⟨init, fun _ => 0, fun _ => []⟩

/-- Thread `t` executes its next op (no-op when it has finished): a read appends the current
content of the location to `obs t`; a write updates the memory. -/
def step (s : Sys) (st : State) (t : Tid) : State :=
  match (s.progs t)[st.pc t]? with
  | none => st
  | some (.read l) =>
    { mem := st.mem
      pc := fun u => if u = t then st.pc t + 1 else st.pc u
      obs := fun u => if u = t then st.obs t ++ [st.mem l] else st.obs u }
  | some (.write l v) =>
    { mem := fun m => if m = l then v else st.mem m
      pc := fun u => if u = t then st.pc t + 1 else st.pc u
      obs := st.obs }

/-- Run a schedule (any interleaving: the list of thread ids in the order they get to move). -/
def exec (s : Sys) (st : State) (sched : List Tid) : State := sched.foldl (step s) st

/-- Thread `t` alone executing its first `k` ops from memory `init`. -/
def solo (s : Sys) (init : Loc → Val) (t : Tid) : Nat → State
  | 0 => State.init init
  | k + 1 => step s (solo s init t k) t

/-- Discipline: shared locations are only read; a private location is only touched by its owner. -/
def ReadOnlyShared (s : Sys) : Prop :=
  ∀ t, ∀ op ∈ s.progs t,
    match op with
    | .write l _ => s.shared l = false ∧ s.owner l = t
    | .read l => s.shared l = true ∨ s.owner l = t

/-- A data race: two accesses to the same location by different threads, at least one a write. -/
def Conflict (s : Sys) : Prop :=
  ∃ t1 t2 l, t1 ≠ t2 ∧
    ((∃ v, Op.write l v ∈ s.progs t1) ∧
      (Op.read l ∈ s.progs t2 ∨ ∃ v, Op.write l v ∈ s.progs t2))

end LD.Trace

/-
  LDEval.Model.Basic — JSON values, exact numbers, attribute references, evaluation contexts.

  Mirrors (behaviourally) ldvalue.Value, ldattr.Ref and ldcontext.Context of go-sdk-common v3.1.0,
  which /repo calls but does not contain.  Core Lean only (no Mathlib) so that the driver links.
-/

namespace LD

/-- A JSON value as `ldvalue.Value` holds it.  Numbers are the *exact* rational value of the
float64 the Go side holds (the harness transmits num/den), so comparison, truncation and the
integrality test are exact. -/
inductive J where
  | null
  | bool (b : Bool)
  | num (q : Rat)
  | str (s : String)
  | arr (xs : List J)
  | obj (kvs : List (String × J))
  /-- `ldvalue.Raw(text)`: an unparsed JSON text, held here by the value it parses to (the text is
  assumed to be valid JSON; `Parse` never yields a raw value, so the payload is normally raw-free).
  `Value.Type()` of such a value is `RawType` — none of the six JSON types — while every other
  accessor parses first and then behaves like the parsed value. -/
  | raw (v : J)
  deriving Inhabited

namespace J

/-- `Value.parseIfRaw`: the value every accessor other than `Type()` works on.  Strips every `raw`
wrapper at the top (never yields a `raw`). -/
def unraw : J → J
  | raw v => unraw v
  | null => null
  | bool b => bool b
  | num q => num q
  | str s => str s
  | arr xs => arr xs
  | obj kvs => obj kvs

@[simp] theorem unraw_raw (v : J) : (raw v).unraw = v.unraw := by rw [unraw]
@[simp] theorem unraw_null : null.unraw = null := rfl
@[simp] theorem unraw_bool (b : Bool) : (bool b).unraw = bool b := rfl
@[simp] theorem unraw_num (q : Rat) : (num q).unraw = num q := rfl
@[simp] theorem unraw_str (s : String) : (str s).unraw = str s := rfl
@[simp] theorem unraw_arr (xs : List J) : (arr xs).unraw = arr xs := rfl
@[simp] theorem unraw_obj (kvs : List (String × J)) : (obj kvs).unraw = obj kvs := rfl

/-- `unraw` never returns a raw value. -/
theorem unraw_ne_raw : (v w : J) → v.unraw ≠ raw w
  | raw v, w => by simpa using unraw_ne_raw v w
  | null, _ | bool _, _ | num _, _ | str _, _ | arr _, _ | obj _, _ => by simp

@[simp] theorem unraw_unraw : (v : J) → v.unraw.unraw = v.unraw
  | raw v => by simpa using unraw_unraw v
  | null | bool _ | num _ | str _ | arr _ | obj _ => rfl

/-- `Value.Type() == RawType` -/
def isRaw : J → Bool | raw _ => true | _ => false

/-- A value that is not raw is its own parsed form. -/
theorem unraw_of_not_raw {v : J} (h : v.isRaw = false) : v.unraw = v := by
  cases v <;> first | rfl | cases h

/-- `Value.IsNull` / `IsString` / `IsNumber` / `IsBool`: transparent (parse first). -/
def isNull (v : J) : Bool := match v.unraw with | null => true | _ => false
def isString (v : J) : Bool := match v.unraw with | str _ => true | _ => false
def isNumber (v : J) : Bool := match v.unraw with | num _ => true | _ => false
def isBool (v : J) : Bool := match v.unraw with | bool _ => true | _ => false

theorem isNull_iff (v : J) : v.isNull = true ↔ v.unraw = null := by
  unfold isNull; cases v.unraw <;> simp

theorem isNull_eq_false_iff (v : J) : v.isNull = false ↔ v.unraw ≠ null := by
  unfold isNull; cases v.unraw <;> simp

@[simp] theorem isNull_raw (v : J) : (raw v).isNull = v.isNull := by simp [isNull]
@[simp] theorem isNull_null : null.isNull = true := rfl
@[simp] theorem isNull_bool (b : Bool) : (bool b).isNull = false := rfl
@[simp] theorem isNull_num (q : Rat) : (num q).isNull = false := rfl
@[simp] theorem isNull_str (s : String) : (str s).isNull = false := rfl
@[simp] theorem isNull_arr (xs : List J) : (arr xs).isNull = false := rfl
@[simp] theorem isNull_obj (kvs : List (String × J)) : (obj kvs).isNull = false := rfl

/-- `Value.GetByKey`: object member or null; a raw value is parsed first (and the members of the
parsed object are ordinary values). -/
def getByKey (v : J) (k : String) : J :=
  match v.unraw with
  | obj kvs => (kvs.lookup k).getD null
  | _ => null

/-- Type-and-value equality of primitives (`Value.Equal` restricted to bool/number/string, which
is all the evaluator ever uses it for).  `Equal` parses a raw operand on either side first. -/
def primEq (a b : J) : Bool :=
  match a.unraw, b.unraw with
  | bool a, bool b => a == b
  | num a, num b => a == b
  | str a, str b => a == b
  | _, _ => false

end J

/-! ### Go integer conversions -/

def int64Min : Int := -9223372036854775808
def int64Max : Int := 9223372036854775807

/-- Truncation toward zero of a rational. -/
def ratTrunc (q : Rat) : Int := if q.num ≥ 0 then q.floor else -((-q).floor)

/-- Go `int(f)` / `int64(f)` on amd64: truncation; out-of-range gives `0x8000000000000000`. -/
def goInt (q : Rat) : Int :=
  let t := ratTrunc q
  if t < int64Min ∨ t > int64Max then int64Min else t

/-- `Value.IsInt`: `v == float64(int(v))`.  All integers in the int64 range that a float64 can
hold convert back exactly, so on exact values this is "integral and in range" (2^63 itself is out
of range: `int(2^63)` is −2^63). -/
def ratIsInt (q : Rat) : Bool := q.den == 1 && decide (int64Min ≤ q.num) && decide (q.num ≤ int64Max)

/-- Two's-complement wrap into int64 (Go `int` arithmetic). -/
def wrapI64 (x : Int) : Int := ((x + 9223372036854775808) % 18446744073709551616) - 9223372036854775808

/-! ### ldattr.Ref -/

inductive RefErr where
  | empty | invalidEscape | extraSlash
  deriving DecidableEq, Repr, Inhabited

/-- The four fields of `ldattr.Ref` (`components == nil` and empty are not distinguished: no
constructor yields a non-nil empty slice without an error, and `Depth` reads it only if no error). -/
structure Ref where
  err : Option RefErr := none
  raw : String := ""
  single : String := ""
  comps : List String := []
  deriving DecidableEq, Repr, Inhabited

namespace Ref

def undefined : Ref := {}

def isDefined (r : Ref) : Bool := r.raw != "" || r.err.isSome

/-- `Ref.Err()` -/
def errOf (r : Ref) : Option RefErr :=
  if r.err.isNone && r.raw == "" then some .empty else r.err

def depth (r : Ref) : Nat :=
  if r.err.isSome || (r.single == "" && r.comps.isEmpty) then 0
  else if r.comps.isEmpty then 1 else r.comps.length

def component (r : Ref) (i : Nat) : String :=
  if i == 0 && r.comps.isEmpty then r.single else r.comps.getD i ""

/-- `unescapePath` on characters (`~0` ↦ `~`, `~1` ↦ `/`, any other `~` is an error). -/
def unescape : List Char → Option (List Char)
  | [] => some []
  | '~' :: '0' :: rest => (unescape rest).map ('~' :: ·)
  | '~' :: '1' :: rest => (unescape rest).map ('/' :: ·)
  | '~' :: _ => none
  | c :: rest => (unescape rest).map (c :: ·)

/-- `strings.Split(path, "/")` on characters. -/
def splitSlash : List Char → List (List Char)
  | [] => [[]]
  | c :: rest =>
    if c == '/' then [] :: splitSlash rest
    else match splitSlash rest with
      | [] => [[c]]
      | p :: ps => (c :: p) :: ps

/-- Accumulate unescaped components; stops like the Go loop does. -/
def buildComps (raw : String) : List (List Char) → List String → Ref
  | [], acc => { raw := raw, comps := acc }
  | p :: ps, acc =>
    if p.isEmpty then { err := some .extraSlash, raw := raw, comps := acc }
    else match unescape p with
      | none => { err := some .invalidEscape, raw := raw }
      | some u => buildComps raw ps (acc ++ [String.ofList u])

/-- `ldattr.NewRef` -/
def newRef (s : String) : Ref :=
  if s == "" || s == "/" then { err := some .empty, raw := s }
  else match s.toList with
    | '/' :: path =>
      if !path.contains '/' then
        match unescape path with
        | some u => { single := String.ofList u, raw := s }
        | none => { err := some .invalidEscape, raw := s }
      else buildComps s (splitSlash path) []
    | _ => { single := s, raw := s }

def escapeLit : List Char → List Char
  | [] => []
  | '~' :: rest => '~' :: '0' :: escapeLit rest
  | '/' :: rest => '~' :: '1' :: escapeLit rest
  | c :: rest => c :: escapeLit rest

/-- `ldattr.NewLiteralRef` -/
def newLiteral (s : String) : Ref :=
  if s == "" then { err := some .empty, raw := s }
  else match s.toList with
    | '/' :: _ => { single := s, raw := String.ofList ('/' :: escapeLit s.toList) }
    | _ => { single := s, raw := s }

end Ref

/-! ### ldcontext.Context -/

/-- One individual (single-kind) context. `attrs` never holds `kind`/`key`/`name`/`anonymous`
(the builder routes those to the built-in fields) and never holds a null. -/
structure SCtx where
  kind : String
  key : String
  name : Option String := none
  anonymous : Bool := false
  secondary : Option String := none
  attrs : List (String × J) := []
  deriving Inhabited

inductive Ctx where
  | invalid
  | single (c : SCtx)
  | multi (cs : List SCtx)
  deriving Inhabited

def defaultKind : String := "user"

def normKind (k : String) : String := if k == "" then defaultKind else k

namespace Ctx

/-- `Context.Kind()` -/
def kind : Ctx → String
  | invalid => ""
  | single c => c.kind
  | multi _ => "multi"

/-- The individual contexts, in `IndividualContextByIndex` order. -/
def individuals : Ctx → List SCtx
  | invalid => []
  | single c => [c]
  | multi cs => cs

/-- `Context.IndividualContextByKind` (`""` means the default kind). -/
def byKind (c : Ctx) (k : String) : Option SCtx :=
  c.individuals.find? (fun sc => sc.kind == normKind k)

/-- `getApplicableContextKeyByKind` -/
def keyByKind (c : Ctx) (k : String) : Option String := (c.byKind k).map (·.key)

end Ctx

namespace SCtx

/-- `getTopLevelAddressableAttributeSingleKind` -/
def topLevel (c : SCtx) (name : String) : Option J :=
  if name == "kind" then some (.str c.kind)
  else if name == "key" then some (.str c.key)
  else if name == "name" then c.name.map .str
  else if name == "anonymous" then some (.bool c.anonymous)
  else c.attrs.lookup name

/-- The component loop of `GetValueForRef`: a raw value on the way is parsed (`ldvalue.Parse(value.AsRaw())`,
here inside `getByKey`) and the member of the parsed value is returned. -/
def descend : J → List String → J
  | v, [] => v
  | v, k :: ks => descend (v.getByKey k) ks

/-- `Context.GetValueForRef` on an individual context; `null` means "no such attribute". -/
def valueForRef (c : SCtx) (r : Ref) : J :=
  if r.errOf.isSome then .null
  else match c.topLevel (r.component 0) with
    | none => .null
    | some v => descend v (r.comps.drop 1)

end SCtx

end LD

/-
  LDEval.Model.Options — construction of an evaluator from an ordered option list.

  Go (`evaluator.go`, `evaluator_options.go`):

      func NewEvaluatorWithOptions(dataProvider DataProvider, options ...EvaluatorOption) Evaluator {
          e := &evaluator{dataProvider: dataProvider}
          for _, o := range options { if o != nil { o.apply(e) } }
          return e
      }

  There are three kinds of option and each `apply` assigns exactly one field of the evaluator:
  `EvaluatorOptionBigSegmentProvider(p)` → `e.bigSegmentProvider = p` (`p` may be nil),
  `EvaluatorOptionErrorLogger(l)` → `e.errorLogger = l` (`l` may be nil),
  `EvaluatorOptionEnableSecondaryKey(b)` → `e.enableSecondaryKey = b`.

  The payload types are parameters (`P` = big-segment provider, `L` = logger); a nil payload is
  `none`.  The result of construction is a `Config`; `Config.bs` / `Config.opts` say how it shows up
  in the evaluator model's `Env` (`Model/Eval.lean`), which is left untouched.
-/
import LDEval.Model.Data

namespace LD

/-- One non-nil `EvaluatorOption`. -/
inductive EvalOption (P L : Type) where
  /-- `EvaluatorOptionBigSegmentProvider(p)`; `none` is a nil provider -/
  | bigSegments (p : Option P)
  /-- `EvaluatorOptionErrorLogger(l)`; `none` is a nil logger -/
  | errorLogger (l : Option L)
  /-- `EvaluatorOptionEnableSecondaryKey(b)` -/
  | enableSecondaryKey (b : Bool)

/-- The three kinds of option = the three evaluator fields an option can assign. -/
inductive OptKind where
  | bigSegments | errorLogger | enableSecondaryKey
  deriving DecidableEq, Repr

def EvalOption.kind {P L : Type} : EvalOption P L → OptKind
  | .bigSegments _ => .bigSegments
  | .errorLogger _ => .errorLogger
  | .enableSecondaryKey _ => .enableSecondaryKey

/-- A nil entry of the variadic `options ...EvaluatorOption` list. -/
def nilOption {P L : Type} : Option (EvalOption P L) := none

/-- The option-assignable fields of Go's `evaluator` struct.  The defaults are the zero values
`&evaluator{dataProvider: dataProvider}` leaves: no provider, no logger, secondary key disabled. -/
structure Config (P L : Type) where
  bigSegmentProvider : Option P := none
  errorLogger : Option L := none
  enableSecondaryKey : Bool := false

/-- `o.apply(e)`: assigns exactly one field. -/
def EvalOption.apply {P L : Type} (c : Config P L) : EvalOption P L → Config P L
  | .bigSegments p => { c with bigSegmentProvider := p }
  | .errorLogger l => { c with errorLogger := l }
  | .enableSecondaryKey b => { c with enableSecondaryKey := b }

/-- One iteration of the loop: `if o != nil { o.apply(e) }`. -/
def applyEntry {P L : Type} (c : Config P L) : Option (EvalOption P L) → Config P L
  | none => c
  | some o => o.apply c

/-- The loop of `NewEvaluatorWithOptions`, from a given configuration. -/
def applyOptionsFrom {P L : Type} (c : Config P L) (os : List (Option (EvalOption P L))) :
    Config P L :=
  os.foldl applyEntry c

/-- `NewEvaluatorWithOptions(dataProvider, options...)`: the options are applied in order to the
zero configuration, nil entries are skipped. -/
def applyOptions {P L : Type} (os : List (Option (EvalOption P L))) : Config P L :=
  applyOptionsFrom {} os

/-- `NewEvaluator(dataProvider)` = `NewEvaluatorWithOptions(dataProvider)`. -/
def newEvaluatorConfig {P L : Type} : Config P L := applyOptions []

/-! ### The last option of each kind -/

/-- The payload of the last big-segment-provider option of the list, if there is one. -/
def lastBigSegments {P L : Type} : List (Option (EvalOption P L)) → Option (Option P)
  | [] => none
  | o :: os =>
    match lastBigSegments os with
    | some p => some p
    | none => match o with
      | some (.bigSegments p) => some p
      | _ => none

def lastErrorLogger {P L : Type} : List (Option (EvalOption P L)) → Option (Option L)
  | [] => none
  | o :: os =>
    match lastErrorLogger os with
    | some l => some l
    | none => match o with
      | some (.errorLogger l) => some l
      | _ => none

def lastSecondaryKey {P L : Type} : List (Option (EvalOption P L)) → Option Bool
  | [] => none
  | o :: os =>
    match lastSecondaryKey os with
    | some b => some b
    | none => match o with
      | some (.enableSecondaryKey b) => some b
      | _ => none

/-! ### How a `Config` shows up in the evaluator model -/

/-- `Env.bs` of the evaluator model: the configured provider (nil = none). -/
def Config.bs {L : Type} (c : Config BSProvider L) : Option BSProvider := c.bigSegmentProvider

/-- `Env.opts` of the evaluator model; the prerequisite-event recorder is an argument of `Evaluate`,
not a construction option. -/
def Config.opts {P L : Type} (c : Config P L) (recorder : Bool := true) : Opts :=
  { secondaryKey := c.enableSecondaryKey, logger := c.errorLogger.isSome, recorder := recorder }

end LD

/-
  LDEval.Model.Clause — evaluator_clause.go (non-segment clauses), ldmodel/eval_accessors.go and
  ldmodel/preprocess.go.
-/
import LDEval.Model.Data
import LDEval.Model.Time
import LDEval.Model.SemVer

namespace LD

/-- The regular-expression oracle: `rx pattern subject` is `none` when the pattern does not
compile, else whether RE2 finds a match (`regexp.MatchString`). Filled by the harness from Go's
`regexp`, independently of /repo. -/
abbrev RegexOracle := String → String → Option Bool

/-! ### preprocess.go -/

/-- `asPrimitiveValueKey` (`switch v.Type()`: a raw value has `RawType`, hence is not a primitive
key — the catch-all case). -/
def asPrimKey : J → PrimKey
  | .bool b => .bool b
  | .num q => .num q
  | .str s => .str s
  | _ => .invalid

def PrimKey.isValid : PrimKey → Bool | .invalid => false | _ => true

/-- `parseRegexp`: the compiled regexp is represented by its pattern.  (`value.IsString()` /
`StringValue()`: a raw string is parsed and used.) -/
def parseRegexp (rx : RegexOracle) (v : J) : Option String :=
  match v.unraw with
  | .str p => if (rx p "").isSome then some p else none
  | _ => none

/-- `parseSemVer` (`value.IsString()` / `StringValue()`: a raw string is parsed and used). -/
def parseSemVer (v : J) : Option SemVer :=
  match v.unraw with
  | .str s => SemVerM.parse s
  | _ => none

/-- `preprocessStringSet`: nil for an empty list. -/
def preprocessStringSet (vs : List String) : Option (List String) :=
  if vs.isEmpty then none else some vs

/-- `preprocessClause` -/
def preprocessClause (rx : RegexOracle) (c : Clause) : ClausePre :=
  if c.op == "in" then
    if c.values.length > 1 && c.values.all (fun v => (asPrimKey v).isValid) then
      { valuesMap := some (c.values.map asPrimKey) }
    else {}
  else if c.op == "matches" then
    { values := some (c.values.map fun v =>
        match parseRegexp rx v with
        | some p => { valid := true, regex := some p }
        | none => { valid := false }) }
  else if c.op == "before" || c.op == "after" then
    { values := some (c.values.map fun v =>
        match Time.valueToTimestamp v with
        | some t => { valid := true, time := t }
        | none => { valid := false }) }
  else if c.op == "semVerEqual" || c.op == "semVerGreaterThan" || c.op == "semVerLessThan" then
    { values := some (c.values.map fun v =>
        match parseSemVer v with
        | some s => { valid := true, semver := s }
        | none => { valid := false }) }
  else {}

def preprocessClauses (rx : RegexOracle) (cs : List Clause) : List Clause :=
  cs.map fun c => { c with pre := preprocessClause rx c }

/-- `PreprocessFlag`: user target key sets and rule clauses (context targets are not touched). -/
def preprocessFlag (rx : RegexOracle) (f : Flag) : Flag :=
  { f with
    targets := f.targets.map fun t => { t with pre := preprocessStringSet t.values }
    rules := f.rules.map fun r => { r with clauses := preprocessClauses rx r.clauses } }

/-- `PreprocessSegment` -/
def preprocessSegment (rx : RegexOracle) (s : Segment) : Segment :=
  { s with
    pre := { includeMap := preprocessStringSet s.included, excludeMap := preprocessStringSet s.excluded }
    includedContexts := s.includedContexts.map fun t => { t with pre := preprocessStringSet t.values }
    excludedContexts := s.excludedContexts.map fun t => { t with pre := preprocessStringSet t.values }
    rules := s.rules.map fun r => { r with clauses := preprocessClauses rx r.clauses } }

/-! ### eval_accessors.go -/

/-- `findValueInMapOrStrings` -/
def findKey (key : String) (values : List String) (table : Option (List String)) : Bool :=
  match table with
  | some m => m.contains key
  | none => values.contains key

def Target.findKey (t : Target) (key : String) : Bool := LD.findKey key t.values t.pre
def SegmentTarget.findKey (t : SegmentTarget) (key : String) : Bool := LD.findKey key t.values t.pre

/-- `ClauseFindValue`: both the key of the context value and the `switch contextValue.Type()` are
opaque (a raw context value is found nowhere); `Equal` (`primEq`) parses a raw clause value. -/
def Clause.findValue (c : Clause) (v : J) : Bool :=
  let viaMap : Option Bool :=
    match c.pre.valuesMap with
    | some m => let k := asPrimKey v; if k.isValid then some (m.contains k) else none
    | none => none
  match viaMap with
  | some b => b
  | none =>
    match v with
    | .bool _ | .num _ | .str _ => c.values.any (fun cv => v.primEq cv)
    | _ => false

/-- `ClauseGetValueAsRegexp`: the pattern of the compiled regexp, if any. -/
def Clause.valueAsRegexp (rx : RegexOracle) (c : Clause) (i : Nat) : Option String :=
  match c.pre.values with
  | some pv => (pv[i]?).bind (·.regex)
  | none => (c.values[i]?).bind (parseRegexp rx)

/-- `ClauseGetValueAsSemanticVersion` -/
def Clause.valueAsSemVer (c : Clause) (i : Nat) : Option SemVer :=
  match c.pre.values with
  | some pv => (pv[i]?).bind fun p => if p.valid then some p.semver else none
  | none => (c.values[i]?).bind parseSemVer

/-- `ClauseGetValueAsTimestamp` -/
def Clause.valueAsTimestamp (c : Clause) (i : Nat) : Option Int :=
  match c.pre.values with
  | some pv => (pv[i]?).bind fun p => if p.valid then some p.time else none
  | none => (c.values[i]?).bind Time.valueToTimestamp

/-! ### evaluator_clause.go -/

def listIsInfix (needle hay : List Char) : Bool :=
  match hay with
  | [] => needle.isEmpty
  | _ :: rest => needle.isPrefixOf hay || listIsInfix needle rest

def strContains (s sub : String) : Bool := listIsInfix sub.toList s.toList
def strHasPrefix (s p : String) : Bool := p.toList.isPrefixOf s.toList
def strHasSuffix (s p : String) : Bool := p.toList.isSuffixOf s.toList

/-- `doOp`.  String, regexp, numeric and semver operators go through `IsString()` / `IsNumber()` /
`StringValue()` / `Float64Value()`, which parse a raw operand; the date operators go through
`ValueToTimestamp` / `parseDateTime`, which switch on `Type()` and reject a raw operand. -/
def doOp (rx : RegexOracle) (c : Clause) (ctxV clV : J) (i : Nat) : Bool :=
  let strOp (f : String → String → Bool) : Bool :=
    match ctxV.unraw, clV.unraw with | .str a, .str b => f a b | _, _ => false
  let numOp (f : Rat → Rat → Bool) : Bool :=
    match ctxV.unraw, clV.unraw with | .num a, .num b => f a b | _, _ => false
  let dateOp (f : Int → Int → Bool) : Bool :=
    match c.valueAsTimestamp i with
    | some clT => match Time.valueToTimestamp ctxV with
      | some cxT => f cxT clT
      | none => false
    | none => false
  let semOp (expected : Int) : Bool :=
    match c.valueAsSemVer i with
    | some clS => match parseSemVer ctxV with
      | some cxS => SemVerM.compare cxS clS == expected
      | none => false
    | none => false
  if c.op == "endsWith" then strOp strHasSuffix
  else if c.op == "startsWith" then strOp strHasPrefix
  else if c.op == "matches" then
    match ctxV.unraw with
    | .str s => match c.valueAsRegexp rx i with
      | some p => (rx p s).getD false
      | none => false
    | _ => false
  else if c.op == "contains" then strOp strContains
  else if c.op == "lessThan" then numOp (fun a b => a < b)
  else if c.op == "lessThanOrEqual" then numOp (fun a b => a ≤ b)
  else if c.op == "greaterThan" then numOp (fun a b => a > b)
  else if c.op == "greaterThanOrEqual" then numOp (fun a b => a ≥ b)
  else if c.op == "before" then dateOp (fun a b => a < b)
  else if c.op == "after" then dateOp (fun a b => a > b)
  else if c.op == "semVerEqual" then semOp 0
  else if c.op == "semVerLessThan" then semOp (-1)
  else if c.op == "semVerGreaterThan" then semOp 1
  else false

def anyIdx (p : J → Nat → Bool) : List J → Nat → Bool
  | [], _ => false
  | v :: vs, i => p v i || anyIdx p vs (i + 1)

/-- `matchAny` -/
def matchAny (rx : RegexOracle) (c : Clause) (v : J) : Bool :=
  if c.op == "in" then c.findValue v
  else anyIdx (fun cv i => doOp rx c v cv i) c.values 0

def maybeNegate (negate result : Bool) : Bool := if negate then !result else result

/-- `clauseMatchByKind` -/
def clauseMatchByKind (rx : RegexOracle) (c : Clause) (ctx : Ctx) : Bool :=
  match ctx with
  | .multi cs => cs.any fun sc => matchAny rx c (.str sc.kind)
  | _ => matchAny rx c (.str ctx.kind)

/-- Errors internal to an evaluation (errors.go). -/
inductive EvalErr where
  | badVariation (i : Int)
  | emptyAttr
  | badAttrRef (s : String)
  | emptyRollout
  | circularPrereq (k : String)
  | circularSegment (k : String)
  | malformedSegment (k : String) (inner : EvalErr)
  deriving DecidableEq, Repr, Inhabited

/-- `clauseMatchesContextNoSegments`.  The null test is `uValue.IsNull()` (a raw `null` is a missing
attribute); the array test is `uValue.Type() == ArrayType` (a raw array is NOT iterated: it is
offered to the operator as one value). -/
def clauseMatchNoSeg (rx : RegexOracle) (ctx : Ctx) (c : Clause) : Except EvalErr Bool :=
  if !c.attr.isDefined then .error .emptyAttr
  else if c.attr.errOf.isSome then .error (.badAttrRef c.attr.raw)
  else if c.attr.raw == "kind" then .ok (maybeNegate c.negate (clauseMatchByKind rx c ctx))
  else match ctx.byKind c.contextKind with
    | none => .ok false
    | some sc =>
      match sc.valueForRef c.attr with
      | .null => .ok false
      | .arr xs => .ok (maybeNegate c.negate (xs.any (matchAny rx c)))
      | v => if v.isNull then .ok false else .ok (maybeNegate c.negate (matchAny rx c v))

end LD

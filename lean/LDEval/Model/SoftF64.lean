/-
  LDEval.Model.SoftF64 — rounding of an exact rational to IEEE-754 binary64 (53-bit significand,
  ties to even, unbounded exponent). Used only to canonicalise numbers of encoded documents before
  comparing them with what Go wrote and re-read as float64.
-/
import LDEval.Model.SoftF32

namespace LD.SoftF64
open LD.SoftF32

def rnd (x : Rat) : Rat :=
  if x = 0 then 0 else
  let e := ilog2 (if x < 0 then -x else x)
  let ulp := pow2 (e - 52)
  (roundHalfEven (x / ulp) : Rat) * ulp

end LD.SoftF64

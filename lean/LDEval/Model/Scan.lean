/-
  LDEval.Model.Scan — the "simpleASCIIScanner" used by ldmodel/parse_time.go and by go-semver,
  over the UTF-8 bytes of the string.
-/
namespace LD.Scan

/-- What `readUntil` stopped at: end of input, a NUL / non-ASCII byte (not consumed), or a
terminator character (consumed). -/
inductive Term where
  | eof | nonAscii | ch (c : UInt8)
  deriving DecidableEq, Repr, Inhabited

def Term.isNeg : Term → Bool | .ch _ => false | _ => true
def Term.is (t : Term) (c : Char) : Bool := t == .ch (UInt8.ofNat c.toNat)

/-- `readUntil`: the substring before the stop, the stop, and the remaining input. -/
def readUntil (isTerm : UInt8 → Bool) : List UInt8 → List UInt8 × Term × List UInt8
  | [] => ([], .eof, [])
  | c :: rest =>
    if c == 0 || c > 127 then ([], .nonAscii, c :: rest)
    else if isTerm c then ([], .ch c, rest)
    else
      let r := readUntil isTerm rest
      (c :: r.1, r.2.1, r.2.2)

def isDigit (c : UInt8) : Bool := 48 ≤ c && c ≤ 57

/-- Digits to a number (no overflow handling: callers bound the length, or wrap explicitly). -/
def digitsVal : List UInt8 → Nat → Nat
  | [], acc => acc
  | c :: rest, acc => digitsVal rest (acc * 10 + (c.toNat - 48))

/-- `parsePositiveNumericString` of parse_time.go: non-empty, all digits. -/
def parsePositive (s : List UInt8) : Option Nat :=
  if s.isEmpty || !s.all isDigit then none else some (digitsVal s 0)

def c (ch : Char) : UInt8 := UInt8.ofNat ch.toNat

end LD.Scan

/-
  LDEval.Model.CodecEntry — the (de)serialization ENTRY POINTS of ldmodel, composed the way the code
  composes them (model_unmarshal.go:12-47, model_marshal.go:27-31, model_serialization.go,
  model_serialization_easyjson.go), on top of the one tree-level decoder (`Codec.readFlag`,
  `Codec.readSegment`), `preprocessFlag` / `preprocessSegment`, and the one tree-level encoder
  (`Codec.encodeFlag`, `Codec.encodeSegment`).

  `Model/Codec.lean` has one function per direction and an error monad without a value
  (`D := Except Unit`).  The Go entry points differ in exactly the things that monad cannot say:
  which VALUE accompanies an error (the zero value, the half-built value, or the caller's old
  value), and whether a destination is assigned.  This file adds those wrappers and nothing else.

  Scope (as for `Model/Codec.lean`): the tokenizer / writer (bytes ↔ tree) is outside; `data : J`
  stands for the bytes handed to a fresh `jreader.NewReader(data)`, `doc : J` for the value at the
  cursor of a fresh, error-free `*jreader.Reader` / easyjson lexer.

  What ties these wrappers to the code: the regenerated fact `Generated.entryPoints` (every exported
  function or method of ldmodel whose name contains "marshal", in both build variants, with the core
  codec functions it reaches through static calls), the obligations
  `Obligations/CodecTables.lean: entry_points, entry_points_funnel`, and the table `modelled` at the
  end of this file (`C16.modelled_entry_points` proves it equal to the frozen expectation).  The
  fact pins WHICH entry points exist and that each funnels into the single decoder + preprocessing /
  the single encoder; the glue around the call (`if err == nil { *f = result }`, `FeatureFlag{}` on
  error) is transcribed here by hand from the few lines quoted beside each definition.
-/
import LDEval.Model.Codec

namespace LD.Entry

open LD.Codec

/-- What a Go call leaves behind: a value and whether an error is reported with it.
For the `…FromBytes` functions and the serialization object this is the returned pair
`(value, err)` with `err = true` for `err != nil`; for a reader-level function (`*jreader.Reader`
argument) `value` is the returned value and `err` says whether the reader is in its sticky error
state afterwards (`r.Error() != nil`); for a hook with a pointer receiver `value` is `*f` after the
call. -/
structure Ret (α : Type) where
  value : α
  err : Bool

/-- The half-built value.  When a jreader primitive fails the reader enters a sticky error state,
every later primitive returns a zero value, every loop ends, and `readFeatureFlag` /
`readSegment` return with whatever they had assigned into `parsed` so far.  `Model/Codec.lean`
does not describe that prefix of assignments (its `D` has no value on error), so it is a
PARAMETER here: every statement about the entry points is proved for every `Partial`, hence for
the real one. -/
structure Partial where
  flag : J → Flag
  segment : J → Segment

/-- Go's `FeatureFlag{}`. -/
def zeroFlag : Flag := {}
/-- Go's `Segment{}`. -/
def zeroSegment : Segment := {}

/-! ### Decoding: internal functions (model_unmarshal.go) -/

/-- `var parsed FeatureFlag; readFeatureFlag(r, &parsed)` seen from the caller: `parsed` and the
reader's error state. -/
def readFeatureFlag (pv : Partial) (doc : J) : Ret Flag :=
  match readFlag doc with
  | .ok f => ⟨f, false⟩
  | .error _ => ⟨pv.flag doc, true⟩

/-- `var parsed Segment; readSegment(r, &parsed)`. -/
def readSegmentInto (pv : Partial) (doc : J) : Ret Segment :=
  match readSegment doc with
  | .ok s => ⟨s, false⟩
  | .error _ => ⟨pv.segment doc, true⟩

/-- `unmarshalFeatureFlagFromReader` (model_unmarshal.go:21-29):
`readFeatureFlag(r, &parsed); if r.Error() == nil { PreprocessFlag(&parsed) }; return parsed`.
On error the half-built value is returned as it is, NOT preprocessed. -/
def unmarshalFeatureFlagFromReader (rx : RegexOracle) (pv : Partial) (doc : J) : Ret Flag :=
  let r := readFeatureFlag pv doc
  if r.err then r else ⟨preprocessFlag rx r.value, false⟩

/-- `unmarshalSegmentFromReader` (model_unmarshal.go:40-47). -/
def unmarshalSegmentFromReader (rx : RegexOracle) (pv : Partial) (doc : J) : Ret Segment :=
  let r := readSegmentInto pv doc
  if r.err then r else ⟨preprocessSegment rx r.value, false⟩

/-- `unmarshalFeatureFlagFromBytes` (model_unmarshal.go:12-19):
`parsed := unmarshalFeatureFlagFromReader(&r); if err := r.Error(); err != nil { return
FeatureFlag{}, … }; return parsed, nil`. -/
def unmarshalFeatureFlagFromBytes (rx : RegexOracle) (pv : Partial) (data : J) : Ret Flag :=
  let r := unmarshalFeatureFlagFromReader rx pv data
  if r.err then ⟨zeroFlag, true⟩ else ⟨r.value, false⟩

/-- `unmarshalSegmentFromBytes` (model_unmarshal.go:31-38). -/
def unmarshalSegmentFromBytes (rx : RegexOracle) (pv : Partial) (data : J) : Ret Segment :=
  let r := unmarshalSegmentFromReader rx pv data
  if r.err then ⟨zeroSegment, true⟩ else ⟨r.value, false⟩

/-! ### Decoding: the four public paths -/

/-- Path 1, the serialization object: `jsonDataModelSerialization.UnmarshalFeatureFlag(data)`
`= unmarshalFeatureFlagFromBytes(data)`. -/
def Serialization.unmarshalFeatureFlag (rx : RegexOracle) (pv : Partial) (data : J) : Ret Flag :=
  unmarshalFeatureFlagFromBytes rx pv data

def Serialization.unmarshalSegment (rx : RegexOracle) (pv : Partial) (data : J) : Ret Segment :=
  unmarshalSegmentFromBytes rx pv data

/-- Path 2, the encoding/json hook `(*FeatureFlag).UnmarshalJSON(data)` with `*f = dest` before the
call: `result, err := unmarshalFeatureFlagFromBytes(data); if err == nil { *f = result }; return
err`.  `value` is `*f` afterwards. -/
def FeatureFlag.unmarshalJSON (rx : RegexOracle) (pv : Partial) (dest : Flag) (data : J) : Ret Flag :=
  let r := unmarshalFeatureFlagFromBytes rx pv data
  ⟨if r.err then dest else r.value, r.err⟩

/-- `(*Segment).UnmarshalJSON(data)`. -/
def Segment.unmarshalJSON (rx : RegexOracle) (pv : Partial) (dest : Segment) (data : J) : Ret Segment :=
  let r := unmarshalSegmentFromBytes rx pv data
  ⟨if r.err then dest else r.value, r.err⟩

/-- Path 3, the streaming function `UnmarshalFeatureFlagFromJSONReader(reader)`
`= unmarshalFeatureFlagFromReader(reader)`; the caller finds the error in the reader. -/
def unmarshalFeatureFlagFromJSONReader (rx : RegexOracle) (pv : Partial) (doc : J) : Ret Flag :=
  unmarshalFeatureFlagFromReader rx pv doc

def unmarshalSegmentFromJSONReader (rx : RegexOracle) (pv : Partial) (doc : J) : Ret Segment :=
  unmarshalSegmentFromReader rx pv doc

/-- Path 4 (build tag `launchdarkly_easyjson`), `(*FeatureFlag).UnmarshalEasyJSON(lexer)`:
`wrappedReader := jreader.NewReaderFromEasyJSONLexer(lexer);`
`*f = unmarshalFeatureFlagFromReader(&wrappedReader)` — assigned UNCONDITIONALLY (so `dest` does
not occur on the right-hand side); the error stays in the lexer. -/
def FeatureFlag.unmarshalEasyJSON (rx : RegexOracle) (pv : Partial) (_dest : Flag) (doc : J) : Ret Flag :=
  unmarshalFeatureFlagFromReader rx pv doc

def Segment.unmarshalEasyJSON (rx : RegexOracle) (pv : Partial) (_dest : Segment) (doc : J) :
    Ret Segment :=
  unmarshalSegmentFromReader rx pv doc

/-! ### Encoding -/

/-- A `jwriter.Writer` at tree level: the top-level JSON values written to it so far. -/
abbrev Writer := List J

/-- `jwriter.NewWriter()`. -/
def Writer.new : Writer := []

/-- `marshalFeatureFlagToWriter(flag, w)` (model_marshal.go:33): writes one object. -/
def marshalFeatureFlagToWriter (f : Flag) (w : Writer) : Writer := w ++ [encodeFlag f]

/-- `marshalSegmentToWriter(segment, w)`. -/
def marshalSegmentToWriter (s : Segment) (w : Writer) : Writer := w ++ [encodeSegment s]

/-- `marshalFeatureFlag` (model_marshal.go:27-31): `w := jwriter.NewWriter();`
`marshalFeatureFlagToWriter(flag, &w); return w.Bytes(), w.Error()`.  A writer into its own buffer
that is only driven by `marshalFeatureFlagToWriter` has no error. -/
def marshalFeatureFlag (f : Flag) : Ret Writer :=
  let w := marshalFeatureFlagToWriter f Writer.new
  ⟨w, false⟩

def marshalSegment (s : Segment) : Ret Writer :=
  let w := marshalSegmentToWriter s Writer.new
  ⟨w, false⟩

/-- Path 1: `jsonDataModelSerialization.MarshalFeatureFlag(item) = marshalFeatureFlag(item)`. -/
def Serialization.marshalFeatureFlag (f : Flag) : Ret Writer := LD.Entry.marshalFeatureFlag f
def Serialization.marshalSegment (s : Segment) : Ret Writer := LD.Entry.marshalSegment s

/-- Path 2: `FeatureFlag.MarshalJSON() = marshalFeatureFlag(f)`. -/
def FeatureFlag.marshalJSON (f : Flag) : Ret Writer := marshalFeatureFlag f
def Segment.marshalJSON (s : Segment) : Ret Writer := marshalSegment s

/-- Path 3: `MarshalFeatureFlagToJSONWriter(item, writer) = marshalFeatureFlagToWriter(item, writer)`. -/
def marshalFeatureFlagToJSONWriter (f : Flag) (w : Writer) : Writer := marshalFeatureFlagToWriter f w
def marshalSegmentToJSONWriter (s : Segment) (w : Writer) : Writer := marshalSegmentToWriter s w

/-- Path 4: `FeatureFlag.MarshalEasyJSON(writer)`: `wrappedWriter :=`
`jwriter.NewWriterFromEasyJSONWriter(writer); marshalFeatureFlagToWriter(f, &wrappedWriter)`. -/
def FeatureFlag.marshalEasyJSON (f : Flag) (w : Writer) : Writer := marshalFeatureFlagToWriter f w
def Segment.marshalEasyJSON (s : Segment) (w : Writer) : Writer := marshalSegmentToWriter s w

/-! ### The entry points modelled above, in the format of the fact `entryPoints` -/

/-- (Go name, core functions it reaches).  Sorted like `Generated.entryPoints`. -/
def modelled : List (String × String) :=
  [("(*FeatureFlag).UnmarshalJSON", "‹flag-decoder› ‹flag-preprocess›"),
   ("(*Segment).UnmarshalJSON", "‹segment-decoder› ‹segment-preprocess›"),
   ("(FeatureFlag).MarshalJSON", "‹flag-encoder›"),
   ("(Segment).MarshalJSON", "‹segment-encoder›"),
   ("(jsonDataModelSerialization).MarshalFeatureFlag", "‹flag-encoder›"),
   ("(jsonDataModelSerialization).MarshalSegment", "‹segment-encoder›"),
   ("(jsonDataModelSerialization).UnmarshalFeatureFlag", "‹flag-decoder› ‹flag-preprocess›"),
   ("(jsonDataModelSerialization).UnmarshalSegment", "‹segment-decoder› ‹segment-preprocess›"),
   ("MarshalFeatureFlagToJSONWriter", "‹flag-encoder›"),
   ("MarshalSegmentToJSONWriter", "‹segment-encoder›"),
   ("UnmarshalFeatureFlagFromJSONReader", "‹flag-decoder› ‹flag-preprocess›"),
   ("UnmarshalSegmentFromJSONReader", "‹segment-decoder› ‹segment-preprocess›"),
   ("easyjson:(*FeatureFlag).UnmarshalEasyJSON", "‹flag-decoder› ‹flag-preprocess›"),
   ("easyjson:(*Segment).UnmarshalEasyJSON", "‹segment-decoder› ‹segment-preprocess›"),
   ("easyjson:(FeatureFlag).MarshalEasyJSON", "‹flag-encoder›"),
   ("easyjson:(Segment).MarshalEasyJSON", "‹segment-encoder›")]

end LD.Entry

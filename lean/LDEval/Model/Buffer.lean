/-
  LDEval.Model.Buffer — internal.LocalBuffer (with its capacity rule), strconv.AppendInt and
  internal.ParseHexUint64.
-/
namespace LD

/-- `internal.LocalBuffer`: the slice's contents and its capacity. -/
structure LocalBuffer where
  data : List UInt8
  cap : Nat
  deriving Repr

namespace LocalBuffer

def new (cap : Nat) : LocalBuffer := ⟨[], cap⟩

/-- `grow`: returns the buffer with `n` more (zeroed) bytes and the old length.  If the capacity
suffices the slice is re-sliced; otherwise a new array of capacity `max (2*cap) (2*newLen)` is
allocated and the old contents copied. -/
def grow (b : LocalBuffer) (n : Nat) : LocalBuffer × Nat :=
  let oldLen := b.data.length
  let newLen := oldLen + n
  if b.cap ≥ newLen then
    (⟨b.data ++ List.replicate n 0, b.cap⟩, oldLen)
  else
    let newCap := if b.cap * 2 < newLen then newLen * 2 else b.cap * 2
    (⟨(b.data ++ List.replicate n 0), newCap⟩, oldLen)

/-- `copy(dst[off:], src)` for a destination that has room. -/
def copyAt (dst : List UInt8) (off : Nat) (src : List UInt8) : List UInt8 :=
  dst.take off ++ src ++ dst.drop (off + src.length)

def append (b : LocalBuffer) (bs : List UInt8) : LocalBuffer :=
  let (b', oldLen) := b.grow bs.length
  { b' with data := copyAt b'.data oldLen bs }

def appendByte (b : LocalBuffer) (ch : UInt8) : LocalBuffer := b.append [ch]

def appendString (b : LocalBuffer) (s : String) : LocalBuffer := b.append s.toUTF8.toList

end LocalBuffer

/-- Decimal digits of a natural number, most significant first (`"0"` for zero). -/
def natDigits (n : Nat) : List UInt8 :=
  (Nat.toDigits 10 n).map (fun c => UInt8.ofNat c.toNat)

/-- `strconv.AppendInt(_, n, 10)` -/
def decimal (n : Int) : List UInt8 :=
  if n < 0 then 45 :: natDigits n.natAbs else natDigits n.natAbs

def LocalBuffer.appendInt (b : LocalBuffer) (n : Int) : LocalBuffer := b.append (decimal n)

/-- One step of `ParseHexUint64`'s loop. -/
def hexVal (ch : UInt8) : Option UInt64 :=
  if 48 ≤ ch ∧ ch ≤ 57 then some (ch - 48).toUInt64
  else if 97 ≤ ch ∧ ch ≤ 102 then some (ch - 97 + 10).toUInt64
  else if 65 ≤ ch ∧ ch ≤ 70 then some (ch - 65 + 10).toUInt64
  else none

def parseHexLoop : List UInt8 → UInt64 → Option UInt64
  | [], acc => some acc
  | ch :: rest, acc =>
    match hexVal ch with
    | some d => parseHexLoop rest ((acc <<< 4) + d)
    | none => none

/-- `internal.ParseHexUint64` -/
def parseHexU64 (bs : List UInt8) : Option UInt64 :=
  if bs.isEmpty then none else parseHexLoop bs 0

end LD

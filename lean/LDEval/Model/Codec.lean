/-
  LDEval.Model.Codec — ldmodel/model_marshal.go and model_unmarshal.go at the level of JSON *trees*
  (`J`, objects as ordered member lists, duplicates allowed).  The tokenizer/writer (go-jsonstream:
  bytes ↔ tree) is outside the model.  Readers mirror jreader's primitives: a type mismatch is an
  error that makes the whole decode fail; unknown members are skipped without looking at them.
-/
import LDEval.Model.Clause

namespace LD.Codec

abbrev D := Except Unit

def fail {α} : D α := .error ()

/-! ### jreader primitives on trees -/

def rString : J → D String | .str s => pure s | _ => fail
def rStringOrNull : J → D (Option String) | .null => pure none | .str s => pure (some s) | _ => fail
def rBool : J → D Bool | .bool b => pure b | _ => fail
/-- `r.Int()` = `int(r.Float64())` -/
def rInt : J → D Int | .num q => pure (goInt q) | _ => fail
def rIntOrNull : J → D (Option Int) | .null => pure none | .num q => pure (some (goInt q)) | _ => fail
def rFloatOrNull : J → D (Option Rat) | .null => pure none | .num q => pure (some q) | _ => fail
def rArray : J → D (List J) | .arr xs => pure xs | _ => fail
def rArrayOrNull : J → D (List J) | .null => pure [] | .arr xs => pure xs | _ => fail
def rObject : J → D (List (String × J)) | .obj kvs => pure kvs | _ => fail
def rObjectOrNull : J → D (Option (List (String × J))) | .null => pure none | .obj kvs => pure (some kvs) | _ => fail

/-- The `for obj.Next() { switch name … }` loop: members in document order, each handled or skipped. -/
def objLoop {σ} (h : σ → String → J → D σ) (init : σ) (kvs : List (String × J)) : D σ :=
  kvs.foldlM (fun acc kv => h acc kv.1 kv.2) init

/-! ### Canonical form of decoded values (ldvalue objects are Go maps: last duplicate wins, no order) -/

def insertSorted (k : String) (v : J) : List (String × J) → List (String × J)
  | [] => [(k, v)]
  | (k', v') :: rest =>
    if k < k' then (k, v) :: (k', v') :: rest
    else if k == k' then (k, v) :: rest
    else (k', v') :: insertSorted k v rest

mutual
/-- `Value.ReadFromJSONReader`: the value as ldvalue holds it (object members keyed, sorted). -/
def normValue : J → J
  | .arr xs => .arr (normList xs)
  | .obj kvs => .obj (normKvs kvs [])
  | v => v
def normList : List J → List J
  | [] => []
  | x :: xs => normValue x :: normList xs
def normKvs : List (String × J) → List (String × J) → List (String × J)
  | [], acc => acc
  | (k, v) :: rest, acc => normKvs rest (insertSorted k (normValue v) acc)
end

/-! ### float64 ↔ uint64 (ldtime.UnixMillisecondTime) as Go/amd64 does it -/

def two63 : Int := 9223372036854775808
def two64 : Int := 18446744073709551616

/-- Go `uint64(f)` on amd64 (Go 1.2x): below 2^63 convert as int64 and reinterpret; otherwise
convert `f − 2^63` as int64 and set the top bit; an int64 conversion out of range gives 2^63. -/
def goUint64 (q : Rat) : Nat :=
  if q < (two63 : Rat) then
    let t := ratTrunc q
    let i := if t < -two63 then -two63 else t
    (i % two64).toNat
  else
    let t := ratTrunc (q - (two63 : Rat))
    let i := if t ≥ two63 then -two63 else t
    let u := (i % two64).toNat
    if u ≥ two63.toNat then u else u + two63.toNat

/-- Round a positive integer to a 53-bit significand, ties to even (`float64(uint64)`). -/
def natToF64 (n : Nat) : Rat :=
  if n < 2 ^ 53 then n else
  let e := n.log2 - 52            -- n has e+53 bits
  let m := n / 2 ^ e
  let r := n % 2 ^ e
  let half := 2 ^ (e - 1)
  let m' := if r > half then m + 1 else if r < half then m else if m % 2 == 0 then m else m + 1
  ((m' * 2 ^ e : Nat) : Rat)

/-! ### Decoder (model_unmarshal.go) -/

/-- `setAttrNameOrRef` -/
def attrNameOrRef (value contextKind : String) : Ref :=
  if value == "" then {} else if contextKind == "" then Ref.newLiteral value else Ref.newRef value

def readStringList (acc : List String) (v : J) : D (List String) := do
  let xs ← rArrayOrNull v
  let ss ← xs.mapM rString
  pure (acc ++ ss)

def readValueList (acc : List J) (v : J) : D (List J) := do
  let xs ← rArrayOrNull v
  pure (acc ++ xs.map normValue)

def readPrerequisites (acc : List Prereq) (v : J) : D (List Prereq) := do
  let xs ← rArrayOrNull v
  let ps ← xs.mapM fun x => do
    let kvs ← rObject x
    objLoop (fun (p : Prereq) name val =>
      if name == "key" then do pure { p with key := ← rString val }
      else if name == "variation" then do pure { p with variation := ← rInt val }
      else pure p) { key := "", variation := 0 } kvs
  pure (acc ++ ps)

def readTargets (acc : List Target) (v : J) : D (List Target) := do
  let xs ← rArrayOrNull v
  let ts ← xs.mapM fun x => do
    let kvs ← rObject x
    objLoop (fun (t : Target) name val =>
      if name == "contextKind" then do pure { t with contextKind := ← rString val }
      else if name == "values" then do pure { t with values := ← readStringList t.values val }
      else if name == "variation" then do pure { t with variation := ← rInt val }
      else pure t) {} kvs
  pure (acc ++ ts)

def readClauses (acc : List Clause) (v : J) : D (List Clause) := do
  let xs ← rArrayOrNull v
  let cs ← xs.mapM fun x => do
    let kvs ← rObject x
    let r ← objLoop (fun (s : Clause × String) name val =>
      if name == "contextKind" then do pure ({ s.1 with contextKind := ← rString val }, s.2)
      else if name == "attribute" then do pure (s.1, (← rStringOrNull val).getD "")
      else if name == "op" then do pure ({ s.1 with op := ← rString val }, s.2)
      else if name == "values" then do pure ({ s.1 with values := ← readValueList s.1.values val }, s.2)
      else if name == "negate" then do pure ({ s.1 with negate := ← rBool val }, s.2)
      else pure s) (({} : Clause), "") kvs
    pure { r.1 with attr := attrNameOrRef r.2 r.1.contextKind }
  pure (acc ++ cs)

def readWeightedVariations (acc : List WeightedVariation) (v : J) : D (List WeightedVariation) := do
  let xs ← rArray v     -- NOT null-tolerant
  let ws ← xs.mapM fun x => do
    let kvs ← rObject x
    objLoop (fun (w : WeightedVariation) name val =>
      if name == "variation" then do pure { w with variation := ← rInt val }
      else if name == "weight" then do pure { w with weight := ← rInt val }
      else if name == "untracked" then do pure { w with untracked := ← rBool val }
      else pure w) { variation := 0, weight := 0 } kvs
  pure (acc ++ ws)

/-- `readRollout`: null resets; otherwise members are read *into the existing value*. -/
def readRollout (out : Rollout) (v : J) : D Rollout := do
  match ← rObjectOrNull v with
  | none => pure {}
  | some kvs =>
    let r ← objLoop (fun (s : Rollout × String) name val =>
      if name == "kind" then do pure ({ s.1 with kind := ← rString val }, s.2)
      else if name == "contextKind" then do pure ({ s.1 with contextKind := ← rString val }, s.2)
      else if name == "variations" then do
        pure ({ s.1 with variations := ← readWeightedVariations s.1.variations val }, s.2)
      else if name == "bucketBy" then do pure (s.1, (← rStringOrNull val).getD "")
      else if name == "seed" then do
        match ← rIntOrNull val with
        | some n => pure ({ s.1 with seed := some n }, s.2)
        | none => pure s
      else pure s) (out, "") kvs
    pure { r.1 with bucketBy := attrNameOrRef r.2 r.1.contextKind }

def readVariationOrRollout (out : VariationOrRollout) (v : J) : D VariationOrRollout := do
  let kvs ← rObject v
  objLoop (fun (o : VariationOrRollout) name val =>
    if name == "variation" then do pure { o with variation := ← rIntOrNull val }
    else if name == "rollout" then do pure { o with rollout := ← readRollout o.rollout val }
    else pure o) out kvs

def readFlagRules (acc : List FlagRule) (v : J) : D (List FlagRule) := do
  let xs ← rArrayOrNull v
  let rs ← xs.mapM fun x => do
    let kvs ← rObject x
    objLoop (fun (r : FlagRule) name val =>
      if name == "id" then do pure { r with id := ← rString val }
      else if name == "variation" then do pure { r with vr := { r.vr with variation := ← rIntOrNull val } }
      else if name == "rollout" then do pure { r with vr := { r.vr with rollout := ← readRollout r.vr.rollout val } }
      else if name == "clauses" then do pure { r with clauses := ← readClauses r.clauses val }
      else if name == "trackEvents" then do pure { r with trackEvents := ← rBool val }
      else pure r) {} kvs
  pure (acc ++ rs)

def readClientSideAvailability (out : ClientSideAvailability) (v : J) : D ClientSideAvailability := do
  match ← rObjectOrNull v with
  | none => pure { out with explicit := false }
  | some kvs =>
    objLoop (fun (c : ClientSideAvailability) name val =>
      if name == "usingEnvironmentId" then do pure { c with usingEnvironmentID := ← rBool val }
      else if name == "usingMobileKey" then do pure { c with usingMobileKey := ← rBool val }
      else pure c) { out with explicit := true } kvs

def readMigration (v : J) : D (Option (Option Int)) := do
  match ← rObjectOrNull v with
  | none => pure (some none)
  | some kvs =>
    let cr ← objLoop (fun (c : Option Int) name val =>
      if name == "checkRatio" then do pure (some (← rInt val)) else pure c) none kvs
    pure (some cr)

structure FlagAcc where
  flag : Flag := {}
  deprecatedClientSide : Bool := false

def readFlagProp (a : FlagAcc) (name : String) (v : J) : D FlagAcc :=
  let f := a.flag
  if name == "key" then do pure { a with flag := { f with key := ← rString v } }
  else if name == "on" then do pure { a with flag := { f with on := ← rBool v } }
  else if name == "prerequisites" then do pure { a with flag := { f with prerequisites := ← readPrerequisites f.prerequisites v } }
  else if name == "targets" then do pure { a with flag := { f with targets := ← readTargets f.targets v } }
  else if name == "contextTargets" then do pure { a with flag := { f with contextTargets := ← readTargets f.contextTargets v } }
  else if name == "rules" then do pure { a with flag := { f with rules := ← readFlagRules f.rules v } }
  else if name == "fallthrough" then do pure { a with flag := { f with fallthrough := ← readVariationOrRollout f.fallthrough v } }
  else if name == "offVariation" then do pure { a with flag := { f with offVariation := ← rIntOrNull v } }
  else if name == "variations" then do pure { a with flag := { f with variations := ← readValueList f.variations v } }
  else if name == "clientSideAvailability" then do
    pure { a with flag := { f with fmeta := { f.fmeta with clientSide := ← readClientSideAvailability f.fmeta.clientSide v } } }
  else if name == "clientSide" then do pure { a with deprecatedClientSide := ← rBool v }
  else if name == "salt" then do pure { a with flag := { f with salt := ← rString v } }
  else if name == "trackEvents" then do pure { a with flag := { f with fmeta := { f.fmeta with trackEvents := ← rBool v } } }
  else if name == "trackEventsFallthrough" then do pure { a with flag := { f with trackEventsFallthrough := ← rBool v } }
  else if name == "debugEventsUntilDate" then do
    let q := (← rFloatOrNull v).getD 0
    pure { a with flag := { f with fmeta := { f.fmeta with debugEventsUntilDate := goUint64 q } } }
  else if name == "version" then do pure { a with flag := { f with fmeta := { f.fmeta with version := ← rInt v } } }
  else if name == "deleted" then do pure { a with flag := { f with fmeta := { f.fmeta with deleted := ← rBool v } } }
  else if name == "excludeFromSummaries" then do pure { a with flag := { f with excludeFromSummaries := ← rBool v } }
  else if name == "samplingRatio" then do pure { a with flag := { f with fmeta := { f.fmeta with samplingRatio := some (← rInt v) } } }
  else if name == "migration" then do pure { a with flag := { f with fmeta := { f.fmeta with migration := ← readMigration v } } }
  else pure a

/-- `readFeatureFlag` (no preprocessing yet). -/
def readFlag (doc : J) : D Flag := do
  let kvs ← rObject doc
  let a ← objLoop readFlagProp {} kvs
  let f := a.flag
  if f.fmeta.clientSide.explicit then pure f
  else pure { f with fmeta := { f.fmeta with clientSide :=
    { usingMobileKey := true, usingEnvironmentID := a.deprecatedClientSide, explicit := false } } }

/-- `unmarshalFeatureFlagFromReader`: read, then `PreprocessFlag`. -/
def decodeFlag (rx : RegexOracle) (doc : J) : D Flag := do
  pure (preprocessFlag rx (← readFlag doc))

def readSegmentTargets (acc : List SegmentTarget) (v : J) : D (List SegmentTarget) := do
  let xs ← rArrayOrNull v
  let ts ← xs.mapM fun x => do
    let kvs ← rObject x
    objLoop (fun (t : SegmentTarget) name val =>
      if name == "contextKind" then do pure { t with contextKind := ← rString val }
      else if name == "values" then do pure { t with values := ← readStringList t.values val }
      else pure t) {} kvs
  pure (acc ++ ts)

def readSegmentRules (acc : List SegmentRule) (v : J) : D (List SegmentRule) := do
  let xs ← rArrayOrNull v
  let rs ← xs.mapM fun x => do
    let kvs ← rObject x
    let r ← objLoop (fun (s : SegmentRule × String) name val =>
      if name == "id" then do pure ({ s.1 with id := ← rString val }, s.2)
      else if name == "clauses" then do pure ({ s.1 with clauses := ← readClauses s.1.clauses val }, s.2)
      else if name == "weight" then do
        match ← rIntOrNull val with
        | some n => pure ({ s.1 with weight := some n }, s.2)
        | none => pure s
      else if name == "bucketBy" then do pure (s.1, (← rStringOrNull val).getD "")
      else if name == "rolloutContextKind" then do pure ({ s.1 with rolloutContextKind := ← rString val }, s.2)
      else pure s) (({} : SegmentRule), "") kvs
    pure { r.1 with bucketBy := attrNameOrRef r.2 r.1.rolloutContextKind }
  pure (acc ++ rs)

def readSegmentProp (s : Segment) (name : String) (v : J) : D Segment :=
  if name == "key" then do pure { s with key := ← rString v }
  else if name == "version" then do pure { s with version := ← rInt v }
  else if name == "generation" then do pure { s with generation := ← rIntOrNull v }
  else if name == "deleted" then do pure { s with deleted := ← rBool v }
  else if name == "included" then do pure { s with included := ← readStringList s.included v }
  else if name == "excluded" then do pure { s with excluded := ← readStringList s.excluded v }
  else if name == "includedContexts" then do pure { s with includedContexts := ← readSegmentTargets s.includedContexts v }
  else if name == "excludedContexts" then do pure { s with excludedContexts := ← readSegmentTargets s.excludedContexts v }
  else if name == "rules" then do pure { s with rules := ← readSegmentRules s.rules v }
  else if name == "salt" then do pure { s with salt := ← rString v }
  else if name == "unbounded" then do pure { s with unbounded := ← rBool v }
  else if name == "unboundedContextKind" then do pure { s with unboundedContextKind := ← rString v }
  else pure s

def readSegment (doc : J) : D Segment := do
  let kvs ← rObject doc
  objLoop readSegmentProp {} kvs

def decodeSegment (rx : RegexOracle) (doc : J) : D Segment := do
  pure (preprocessSegment rx (← readSegment doc))

/-! ### Encoder (model_marshal.go) -/

def jInt (n : Int) : J := .num n
def jOptInt : Option Int → J | none => .null | some n => .num n
def jStrs (xs : List String) : J := .arr (xs.map .str)
def maybe (c : Bool) (name : String) (v : J) : List (String × J) := if c then [(name, v)] else []

/-- `writeAttrRef` -/
def writeAttrRef (r : Ref) (contextKind : String) : J :=
  if contextKind == "" then .str (r.component 0) else .str r.raw

def encClause (c : Clause) : J :=
  .obj (maybe (c.contextKind != "") "contextKind" (.str c.contextKind) ++
    [("attribute", if !c.attr.isDefined then .str "" else writeAttrRef c.attr c.contextKind),
     ("op", .str c.op), ("values", .arr c.values), ("negate", .bool c.negate)])

def encVR (vr : VariationOrRollout) : List (String × J) :=
  maybe vr.variation.isSome "variation" (jInt (vr.variation.getD 0)) ++
  (if vr.rollout.variations.isEmpty then [] else
    [("rollout", .obj (
      maybe (vr.rollout.kind != "") "kind" (.str vr.rollout.kind) ++
      maybe (vr.rollout.contextKind != "") "contextKind" (.str vr.rollout.contextKind) ++
      [("variations", .arr (vr.rollout.variations.map fun wv =>
          .obj ([("variation", jInt wv.variation), ("weight", jInt wv.weight)] ++
                maybe wv.untracked "untracked" (.bool true))))] ++
      maybe vr.rollout.seed.isSome "seed" (jInt (vr.rollout.seed.getD 0)) ++
      maybe vr.rollout.bucketBy.isDefined "bucketBy" (writeAttrRef vr.rollout.bucketBy vr.rollout.contextKind)))])

def encTargets (ts : List Target) : J :=
  .arr (ts.map fun t => .obj (maybe (t.contextKind != "") "contextKind" (.str t.contextKind) ++
    [("variation", jInt t.variation), ("values", jStrs t.values)]))

/-- `marshalFeatureFlagToWriter` -/
def encodeFlag (f : Flag) : J :=
  .obj ([("key", .str f.key), ("on", .bool f.on),
    ("prerequisites", .arr (f.prerequisites.map fun p => .obj [("key", .str p.key), ("variation", jInt p.variation)])),
    ("targets", encTargets f.targets), ("contextTargets", encTargets f.contextTargets),
    ("rules", .arr (f.rules.map fun r => .obj (encVR r.vr ++ maybe (r.id != "") "id" (.str r.id) ++
        [("clauses", .arr (r.clauses.map encClause)), ("trackEvents", .bool r.trackEvents)]))),
    ("fallthrough", .obj (encVR f.fallthrough)),
    ("offVariation", jOptInt f.offVariation),
    ("variations", .arr f.variations)] ++
    maybe f.fmeta.clientSide.explicit "clientSideAvailability"
      (.obj [("usingMobileKey", .bool f.fmeta.clientSide.usingMobileKey),
             ("usingEnvironmentId", .bool f.fmeta.clientSide.usingEnvironmentID)]) ++
    [("clientSide", .bool f.fmeta.clientSide.usingEnvironmentID), ("salt", .str f.salt),
     ("trackEvents", .bool f.fmeta.trackEvents), ("trackEventsFallthrough", .bool f.trackEventsFallthrough),
     ("debugEventsUntilDate", if f.fmeta.debugEventsUntilDate != 0 then .num (natToF64 f.fmeta.debugEventsUntilDate) else .null),
     ("version", jInt f.fmeta.version), ("deleted", .bool f.fmeta.deleted)] ++
    (match f.fmeta.migration with
     | none => []
     | some cr => [("migration", .obj (maybe cr.isSome "checkRatio" (jInt (cr.getD 0))))]) ++
    maybe f.fmeta.samplingRatio.isSome "samplingRatio" (jInt (f.fmeta.samplingRatio.getD 0)) ++
    maybe f.excludeFromSummaries "excludeFromSummaries" (.bool true))

def encSegTargets (ts : List SegmentTarget) : J :=
  .arr (ts.map fun t => .obj (maybe (t.contextKind != "") "contextKind" (.str t.contextKind) ++
    [("values", jStrs t.values)]))

/-- `marshalSegmentToWriter` -/
def encodeSegment (s : Segment) : J :=
  .obj ([("key", .str s.key), ("included", jStrs s.included), ("excluded", jStrs s.excluded),
    ("includedContexts", encSegTargets s.includedContexts), ("excludedContexts", encSegTargets s.excludedContexts),
    ("salt", .str s.salt),
    ("rules", .arr (s.rules.map fun r => .obj ([("id", .str r.id), ("clauses", .arr (r.clauses.map encClause))] ++
        maybe r.weight.isSome "weight" (jInt (r.weight.getD 0)) ++
        maybe r.bucketBy.isDefined "bucketBy" (writeAttrRef r.bucketBy r.rolloutContextKind) ++
        maybe (r.rolloutContextKind != "") "rolloutContextKind" (.str r.rolloutContextKind))))] ++
    maybe s.unbounded "unbounded" (.bool true) ++
    maybe (s.unboundedContextKind != "") "unboundedContextKind" (.str s.unboundedContextKind) ++
    [("version", jInt s.version), ("generation", jOptInt s.generation), ("deleted", .bool s.deleted)])

end LD.Codec

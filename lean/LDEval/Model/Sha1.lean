/-
  LDEval.Model.Sha1 — SHA-1 (FIPS 180-4) over a byte list.  Not proved to be FIPS 180-4; it is
  validated against Go's crypto/sha1 by the correspondence check on every bucketing case.
-/
namespace LD.Sha1

def rotl (x : UInt32) (n : UInt32) : UInt32 := (x <<< n) ||| (x >>> (32 - n))

def be32 (a b c d : UInt8) : UInt32 :=
  (a.toUInt32 <<< 24) ||| (b.toUInt32 <<< 16) ||| (c.toUInt32 <<< 8) ||| d.toUInt32

/-- Message padding: 0x80, zeros to 56 mod 64, 64-bit big-endian bit length. -/
def pad (msg : List UInt8) : List UInt8 :=
  let l := msg.length
  let zeros := (119 - (l % 64)) % 64
  let bits := l * 8
  let lenBytes : List UInt8 := (List.range 8).map fun i => UInt8.ofNat ((bits >>> (8 * (7 - i))) % 256)
  msg ++ [0x80] ++ List.replicate zeros 0 ++ lenBytes

def words : List UInt8 → List UInt32
  | a :: b :: c :: d :: rest => be32 a b c d :: words rest
  | _ => []

/-- Message schedule: extend 16 words to 80. -/
def schedule (w : Array UInt32) : Array UInt32 := Id.run do
  let mut w := w
  for t in [16:80] do
    w := w.push (rotl (w[t-3]! ^^^ w[t-8]! ^^^ w[t-14]! ^^^ w[t-16]!) 1)
  return w

structure H where
  a : UInt32
  b : UInt32
  c : UInt32
  d : UInt32
  e : UInt32

def init : H := ⟨0x67452301, 0xEFCDAB89, 0x98BADCFE, 0x10325476, 0xC3D2E1F0⟩

def block (h : H) (blk : List UInt32) : H := Id.run do
  let w := schedule blk.toArray
  let mut a := h.a; let mut b := h.b; let mut c := h.c; let mut d := h.d; let mut e := h.e
  for t in [0:80] do
    let (f, k) :=
      if t < 20 then ((b &&& c) ||| ((~~~ b) &&& d), (0x5A827999 : UInt32))
      else if t < 40 then (b ^^^ c ^^^ d, 0x6ED9EBA1)
      else if t < 60 then ((b &&& c) ||| (b &&& d) ||| (c &&& d), 0x8F1BBCDC)
      else (b ^^^ c ^^^ d, 0xCA62C1D6)
    let temp := rotl a 5 + f + e + k + w[t]!
    e := d; d := c; c := rotl b 30; b := a; a := temp
  return ⟨h.a + a, h.b + b, h.c + c, h.d + d, h.e + e⟩

def chunks16 : Nat → List UInt32 → List (List UInt32)
  | 0, _ => []
  | n+1, ws => if ws.isEmpty then [] else ws.take 16 :: chunks16 n (ws.drop 16)

def u32bytes (x : UInt32) : List UInt8 :=
  [(x >>> 24).toUInt8, (x >>> 16).toUInt8, (x >>> 8).toUInt8, x.toUInt8]

/-- The 20-byte digest. -/
def sum (msg : List UInt8) : List UInt8 :=
  let ws := words (pad msg)
  let h := (chunks16 (ws.length / 16 + 1) ws).foldl block init
  u32bytes h.a ++ u32bytes h.b ++ u32bytes h.c ++ u32bytes h.d ++ u32bytes h.e

def hexDigit (n : UInt8) : UInt8 := if n < 10 then 48 + n else 87 + n

/-- `hex.Encode` (lower case). -/
def hexEncode (bs : List UInt8) : List UInt8 :=
  bs.flatMap fun (b : UInt8) => [hexDigit (b >>> 4), hexDigit (b &&& 15)]

end LD.Sha1

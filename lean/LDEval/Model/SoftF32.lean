/-
  LDEval.Model.SoftF32 — IEEE-754 binary32 arithmetic as exact rationals: every operation is the
  exact operation followed by `rnd` (round to a 24-bit significand, ties to even).  The exponent is
  unbounded: overflow to ±Inf and subnormals are outside the model (see DESIGN.md §7 C07: neither
  can arise from the evaluator's use — integers / 100000 and their sums).
-/
namespace LD.SoftF32

/-- 2^e as a rational, for any integer e. -/
def pow2 (e : Int) : Rat :=
  if e ≥ 0 then ((2 ^ e.toNat : Nat) : Rat) else 1 / ((2 ^ (-e).toNat : Nat) : Rat)

/-- ⌊log₂ q⌋ for q > 0 (0 for q ≤ 0). -/
def ilog2 (q : Rat) : Int :=
  if q ≤ 0 then 0 else
  let a : Int := q.num.toNat.log2
  let b : Int := q.den.log2
  let e := a - b
  if pow2 e ≤ q then e else e - 1

/-- Round a rational to the nearest integer, ties to even. -/
def roundHalfEven (q : Rat) : Int :=
  let f := q.floor
  let r := q - f
  if r < 1/2 then f
  else if 1/2 < r then f + 1
  else if f % 2 = 0 then f else f + 1

/-- Round to binary32 (24-bit significand, ties to even, unbounded exponent). -/
def rnd (x : Rat) : Rat :=
  if x = 0 then 0 else
  let e := ilog2 (if x < 0 then -x else x)
  let ulp := pow2 (e - 23)
  (roundHalfEven (x / ulp) : Rat) * ulp

/-- `float32(n)` for an integer n. -/
def ofInt (n : Int) : Rat := rnd n

def add (a b : Rat) : Rat := rnd (a + b)
def div (a b : Rat) : Rat := rnd (a / b)

/-- The IEEE-754 bit pattern of a value in the range of `rnd` (normal range), for exact comparison
with Go's `math.Float32bits`. -/
def bits (x : Rat) : Nat :=
  if x = 0 then 0 else
  let s := if x < 0 then 1 else 0
  let ax := if x < 0 then -x else x
  let e := ilog2 ax
  let m := (ax / pow2 (e - 23)).floor.toNat   -- in [2^23, 2^24)
  s * 2^31 + ((e + 127).toNat) * 2^23 + (m - 2^23)

end LD.SoftF32

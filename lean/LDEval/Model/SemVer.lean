/-
  LDEval.Model.SemVer — go-semver v1.0.3 `ParseAs(_, ParseModeAllowMissingMinorAndPatch)` and
  `ComparePrecedence`, over the UTF-8 bytes of the string (Go `int` arithmetic wraps).
-/
import LDEval.Model.Data
import LDEval.Model.Scan

namespace LD.SemVerM
open LD.Scan

def isDot (b : UInt8) : Bool := b == c '.'
def isHyphenOrPlus (b : UInt8) : Bool := b == c '-' || b == c '+'
def isDotOrHyphenOrPlus (b : UInt8) : Bool := b == c '.' || b == c '-' || b == c '+'
def isPlus (b : UInt8) : Bool := b == c '+'
def noTerm (_ : UInt8) : Bool := false

def isAlnumOrHyphen (b : UInt8) : Bool :=
  (48 ≤ b && b ≤ 57) || (97 ≤ b && b ≤ 122) || (65 ≤ b && b ≤ 90) || b == 45

def numLoop : List UInt8 → Int → Option Int
  | [], acc => some acc
  | ch :: rest, acc =>
    if !isDigit ch then none else numLoop rest (wrapI64 (acc * 10 + (ch.toNat - 48 : Nat)))

/-- go-semver's `parsePositiveNumericString`: digits only, no leading zero unless "0". -/
def parseNum (s : List UInt8) : Option Int :=
  match s with
  | [] => none
  | ch :: rest => if ch == 48 && !rest.isEmpty then none else numLoop s 0

/-- `requirePositiveIntegerComponent` -/
def component (isTerm : UInt8 → Bool) (inp : List UInt8) : Option (Int × Term × List UInt8) :=
  let r := readUntil isTerm inp
  if r.2.1 == .nonAscii then none
  else match parseNum r.1 with
    | some n => some (n, r.2.1, r.2.2)
    | none => none

/-- Dot-separated identifiers as the compare/validate loops see them. -/
def idents : Nat → List UInt8 → List (List UInt8 × Term)
  | 0, _ => []
  | fuel+1, inp =>
    let r := readUntil isDot inp
    match r.2.1 with
    | .ch _ => (r.1, r.2.1) :: (if r.2.2.isEmpty then [] else idents fuel r.2.2)
    | t => [(r.1, t)]

/-- `validatePrerelease`: the loop reads identifiers until EOF. A trailing dot leaves the scanner
at EOF with an empty identifier, which is rejected. -/
def validateLoop (numericRule : Bool) : Nat → List UInt8 → Bool
  | 0, _ => false
  | fuel+1, inp =>
    let r := readUntil isDot inp
    let s := r.1
    if r.2.1 == .nonAscii || s.isEmpty then false
    else if !s.all isAlnumOrHyphen then false
    else if numericRule && s.length > 1 && s.all isDigit && s.head? == some 48 then false
    else if r.2.1 == .eof then true
    else validateLoop numericRule fuel r.2.2

def validatePrerelease (s : List UInt8) : Bool := validateLoop true (s.length + 1) s
def validateBuild (s : List UInt8) : Bool := validateLoop false (s.length + 1) s

def str (bs : List UInt8) : String := String.ofList (bs.map fun b => Char.ofNat b.toNat)

/-- Prerelease and build parts after the numeric components. -/
def parseTail (v : SemVer) (term : Term) (rest : List UInt8) : Option SemVer :=
  let r1 : Option (SemVer × Term × List UInt8) :=
    if term.is '-' then
      let r := readUntil isPlus rest
      if r.1.isEmpty || r.2.1 == .nonAscii || !validatePrerelease r.1 then none
      else some ({ v with prerelease := str r.1 }, r.2.1, r.2.2)
    else some (v, term, rest)
  match r1 with
  | none => none
  | some (v, term, rest) =>
    if term.is '+' then
      let r := readUntil noTerm rest
      if r.1.isEmpty || r.2.1 == .nonAscii || !validateBuild r.1 then none
      else some { v with build := str r.1 }
    else some v

/-- `semver.ParseAs(s, ParseModeAllowMissingMinorAndPatch)` -/
def parseBytes (inp : List UInt8) : Option SemVer :=
  match component isDotOrHyphenOrPlus inp with
  | none => none
  | some (major, t1, r1) =>
    if t1.is '.' then
      match component isDotOrHyphenOrPlus r1 with
      | none => none
      | some (minor, t2, r2) =>
        if t2.is '.' then
          match component isHyphenOrPlus r2 with
          | none => none
          | some (patch, t3, r3) => parseTail { major, minor, patch } t3 r3
        else parseTail { major, minor } t2 r2
    else parseTail { major } t1 r1

def parse (s : String) : Option SemVer := parseBytes s.toUTF8.toList

/-- Byte-wise lexicographic order (Go string `<`). -/
def lexCmp : List UInt8 → List UInt8 → Int
  | [], [] => 0
  | [], _ :: _ => -1
  | _ :: _, [] => 1
  | a :: as, b :: bs => if a < b then -1 else if a > b then 1 else lexCmp as bs

def cmpIdent (a b : List UInt8) : Int :=
  match parseNum a, parseNum b with
  | some n1, some n2 => if n1 < n2 then -1 else if n1 > n2 then 1 else 0
  | some _, none => -1
  | none, some _ => 1
  | none, none => lexCmp a b

/-- `comparePrereleaseIdentifiers`' loop: `eof()` tests before each pair of reads. -/
def cmpPreLoop : Nat → List UInt8 → List UInt8 → Int
  | 0, _, _ => 0
  | fuel+1, s1, s2 =>
    if s1.isEmpty then (if s2.isEmpty then 0 else -1)
    else if s2.isEmpty then 1
    else
      let r1 := readUntil isDot s1
      let r2 := readUntil isDot s2
      let d := cmpIdent r1.1 r2.1
      if d != 0 then d else cmpPreLoop fuel r1.2.2 r2.2.2

def cmpInt (a b : Int) : Int := if a < b then -1 else if a > b then 1 else 0

/-- `Version.ComparePrecedence` -/
def compare (v o : SemVer) : Int :=
  if v.major != o.major then cmpInt v.major o.major
  else if v.minor != o.minor then cmpInt v.minor o.minor
  else if v.patch != o.patch then cmpInt v.patch o.patch
  else if v.prerelease == "" && o.prerelease == "" then 0
  else if v.prerelease == "" then 1
  else if o.prerelease == "" then -1
  else
    let a := v.prerelease.toUTF8.toList
    let b := o.prerelease.toUTF8.toList
    cmpPreLoop (a.length + b.length + 1) a b

end LD.SemVerM

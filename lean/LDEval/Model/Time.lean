/-
  LDEval.Model.Time — ldmodel/parse_time.go (hand-written RFC 3339 scanner), the epoch-millisecond
  conversions of parse_values.go / type_conversions.go, and the slice of Go's `time` package they
  rely on (time.Date for in-range months, Time.Add, Before/After) as integer arithmetic on
  nanoseconds since the Unix epoch.
-/
import LDEval.Model.Basic
import LDEval.Model.Scan

namespace LD.Time
open LD.Scan

/-- Days from 1970-01-01 to the civil date y-m-d (proleptic Gregorian), for m in 1..12 and any d
(linear in d, as `time.Date` normalises day overflow). -/
def daysFromCivil (y m d : Int) : Int :=
  let y' := if m ≤ 2 then y - 1 else y
  let era := y' / 400
  let yoe := y' - era * 400
  let mp := if m > 2 then m - 3 else m + 9
  let doy := (153 * mp + 2) / 5 + d - 1
  let doe := yoe * 365 + yoe / 4 - yoe / 100 + doy
  era * 146097 + doe - 719468

/-- The instant (ns since the Unix epoch) of `time.Date(y, m, d, h, mi, s, ns, UTC)`. -/
def instant (y m d h mi s ns : Int) : Int :=
  ((daysFromCivil y m d * 86400 + h * 3600 + mi * 60 + s) * 1000000000) + ns

/-- Go's zero `time.Time` (0001-01-01T00:00:00Z). -/
def zeroTime : Int := -62135596800000000000

/-- `parseDateTimeNumericField` -/
def numField (isTerm : UInt8 → Bool) (eofOK : Bool) (minLen maxLen minV maxV : Nat)
    (inp : List UInt8) : Option (Nat × Term × List UInt8) :=
  let r := readUntil isTerm inp
  let s := r.1; let t := r.2.1
  if s.isEmpty || (!eofOK && t.isNeg) then none
  else if s.length < minLen || s.length > maxLen then none
  else match parsePositive s with
    | none => none
    | some n => if n < minV || n > maxV then none else some (n, t, r.2.2)

def isHyphen (b : UInt8) : Bool := b == c '-'
def isT (b : UInt8) : Bool := b == c 't' || b == c 'T'
def isColon (b : UInt8) : Bool := b == c ':'
def isEndOfSeconds (b : UInt8) : Bool :=
  b == c '.' || b == c 'Z' || b == c 'z' || b == c '+' || b == c '-'
def isEndOfFraction (b : UInt8) : Bool := b == c 'Z' || b == c 'z' || b == c '+' || b == c '-'
def noTerm (_ : UInt8) : Bool := false

/-- Fractional seconds: returns nanoseconds, the terminator and the rest. -/
def fraction (inp : List UInt8) : Option (Nat × Term × List UInt8) :=
  let r := readUntil isEndOfFraction inp
  let s := r.1; let t := r.2.1
  if t.isNeg || s.length > 9 then none
  else match parsePositive s with
    | none => none
    | some n => some (n * 10 ^ (9 - s.length), t, r.2.2)

/-- Time-zone offset in seconds *to add* (so `+hh:mm` is negative). -/
def tzOffset (t : Term) (inp : List UInt8) : Option Int :=
  if t.is '+' || t.is '-' then
    match numField isColon false 2 2 0 99 inp with
    | none => none
    | some (oh, _, rest) =>
      match numField noTerm true 2 2 0 59 rest with
      | none => none
      | some (om, _, _) =>
        let secs : Int := ((om + oh * 60) * 60 : Nat)
        some (if t.is '+' then -secs else secs)
  else some 0

/-- `parseRFC3339TimeUTC` on bytes: the instant in ns since the epoch. -/
def parseBytes (inp : List UInt8) : Option Int :=
  match numField isHyphen false 4 4 0 9999 inp with
  | none => none
  | some (year, _, r1) =>
  match numField isHyphen false 2 2 1 12 r1 with
  | none => none
  | some (month, _, r2) =>
  match numField isT false 2 2 1 31 r2 with
  | none => none
  | some (day, _, r3) =>
  match numField isColon false 1 2 0 23 r3 with
  | none => none
  | some (hour, _, r4) =>
  match numField isColon false 2 2 0 59 r4 with
  | none => none
  | some (minute, _, r5) =>
  match numField isEndOfSeconds false 2 2 0 60 r5 with
  | none => none
  | some (second, term, r6) =>
    let fr : Option (Nat × Term × List UInt8) :=
      if term.is '.' then fraction r6 else some (0, term, r6)
    match fr with
    | none => none
    | some (nanos, term2, r7) =>
      match tzOffset term2 r7 with
      | none => none
      | some off =>
        some (instant year month day hour minute second nanos + off * 1000000000)

def parseRFC3339 (s : String) : Option Int := parseBytes s.toUTF8.toList

/-- `time.UnixMilli(int64(f))`: the instant of a numeric epoch-millisecond operand. -/
def ofMillis (q : Rat) : Int := goInt q * 1000000

/-- `TypeConversions.ValueToTimestamp` / `parseDateTime`: both `switch value.Type()`, so a raw value
(`RawType`), even one holding a string or a number, is never a timestamp. -/
def valueToTimestamp : J → Option Int
  | .str s => parseRFC3339 s
  | .num q => some (ofMillis q)
  | _ => none

end LD.Time

/-
  LDEval.Model.Builders — the ldbuilders package (/repo/ldbuilders/flag_builder.go,
  segment_builder.go) as functions that set the same fields the Go builders set.

  A Go builder is a struct holding the value under construction plus methods that assign one field
  (or append to one list) and return the builder; here the builder state IS the value under
  construction (`FlagBuilder = Flag`, …) and every method is a function from state to state, to be
  chained with `|>`.  `Build()` copies the value and runs `PreprocessFlag` / `PreprocessSegment`
  (rule and clause helpers build without preprocessing, as in Go).

  Go `...T` variadic parameters are lists (a call without arguments passes a nil slice = `[]`);
  Go `int` is `Int` (64-bit range is a side condition of the round-trip theorems, `C15.IntOK`);
  an `ldvalue.Value` is a `J` tree (being in ldvalue's canonical form, `normValue v = v`, is again a
  side condition there).
-/
import LDEval.Model.Clause

namespace LD.Builders

/-! ### flag_builder.go: free functions -/

/-- `Bucket(variationIndex, weight)` -/
def bucket (variation weight : Int) : WeightedVariation := { variation := variation, weight := weight }

/-- `BucketUntracked(variationIndex, weight)` -/
def bucketUntracked (variation weight : Int) : WeightedVariation :=
  { variation := variation, weight := weight, untracked := true }

/-- `Rollout(buckets...)`: `Kind: RolloutKindRollout` = `"rollout"`. -/
def rollout (buckets : List WeightedVariation) : VariationOrRollout :=
  { rollout := { kind := "rollout", variations := buckets } }

/-- `Experiment(seed, buckets...)`: `Kind: RolloutKindExperiment` = `"experiment"`. -/
def experiment (seed : Option Int) (buckets : List WeightedVariation) : VariationOrRollout :=
  { rollout := { kind := "experiment", variations := buckets, seed := seed } }

/-- `Variation(variationIndex)` -/
def variation (i : Int) : VariationOrRollout := { variation := some i }

/-- `Clause(attr, op, values...)`: the attribute is a LITERAL name, no context kind. -/
def clause (attr op : String) (values : List J) : Clause :=
  { attr := Ref.newLiteral attr, op := op, values := values }

/-- `ClauseWithKind(contextKind, attr, op, values...)` -/
def clauseWithKind (contextKind attr op : String) (values : List J) : Clause :=
  { contextKind := contextKind, attr := Ref.newLiteral attr, op := op, values := values }

/-- `ClauseRef(attrRef, op, values...)` -/
def clauseRef (attrRef : Ref) (op : String) (values : List J) : Clause :=
  { attr := attrRef, op := op, values := values }

/-- `ClauseRefWithKind(contextKind, attrRef, op, values...)` -/
def clauseRefWithKind (contextKind : String) (attrRef : Ref) (op : String) (values : List J) : Clause :=
  { contextKind := contextKind, attr := attrRef, op := op, values := values }

/-- `Negate(c)` -/
def negate (c : Clause) : Clause := { c with negate := true }

/-- `SegmentMatchClause(segmentKeys...)`: `Op: OperatorSegmentMatch`, one string value per key. -/
def segmentMatchClause (segmentKeys : List String) : Clause :=
  { op := "segmentMatch", values := segmentKeys.map .str }

/-! ### RuleBuilder -/

abbrev RuleBuilder := FlagRule

/-- `NewRuleBuilder()` -/
def newRuleBuilder : RuleBuilder := {}

namespace RuleBuilder
/-- `Build()` -/
def build (b : RuleBuilder) : FlagRule := b
/-- `Clauses(clauses...)` replaces the list. -/
def clauses (b : RuleBuilder) (cs : List Clause) : RuleBuilder := { b with clauses := cs }
/-- `ID(id)` -/
def id (b : RuleBuilder) (id : String) : RuleBuilder := { b with id := id }
/-- `TrackEvents(value)` -/
def trackEvents (b : RuleBuilder) (value : Bool) : RuleBuilder := { b with trackEvents := value }
/-- `VariationOrRollout(vr)` -/
def variationOrRollout (b : RuleBuilder) (vr : VariationOrRollout) : RuleBuilder := { b with vr := vr }
/-- `Variation(variationIndex)` = `VariationOrRollout(Variation(variationIndex))` -/
def variation (b : RuleBuilder) (i : Int) : RuleBuilder := b.variationOrRollout (Builders.variation i)
end RuleBuilder

/-! ### MigrationFlagParametersBuilder -/

/-- `ldmodel.MigrationFlagParameters` is the struct `{CheckRatio OptionalInt}`; the flag holds a
pointer to it (`Flag.fmeta.migration : Option (Option Int)`, `none` = nil pointer). -/
abbrev MigrationBuilder := Option Int

/-- `NewMigrationFlagParametersBuilder()` -/
def newMigrationFlagParametersBuilder : MigrationBuilder := none

namespace MigrationBuilder
/-- `Build()` -/
def build (b : MigrationBuilder) : Option Int := b
/-- `CheckRatio(ratio)` -/
def checkRatio (_b : MigrationBuilder) (ratio : Int) : MigrationBuilder := some ratio
end MigrationBuilder

/-! ### FlagBuilder -/

abbrev FlagBuilder := Flag

/-- `NewFlagBuilder(key)`: `Key: key, ClientSideAvailability: {UsingMobileKey: true}`. -/
def newFlagBuilder (key : String) : FlagBuilder :=
  { key := key, fmeta := { clientSide := { usingMobileKey := true } } }

namespace FlagBuilder
/-- `Build()`: `f := b.flag; ldmodel.PreprocessFlag(&f); return f`. -/
def build (rx : RegexOracle) (b : FlagBuilder) : Flag := preprocessFlag rx b
/-- `AddPrerequisite(key, variationIndex)` -/
def addPrerequisite (b : FlagBuilder) (key : String) (variation : Int) : FlagBuilder :=
  { b with prerequisites := b.prerequisites ++ [{ key := key, variation := variation }] }
/-- `AddRule(r)`: appends `r.Build()`. -/
def addRule (b : FlagBuilder) (r : RuleBuilder) : FlagBuilder := { b with rules := b.rules ++ [r.build] }
/-- `AddTarget(variationIndex, keys...)` -/
def addTarget (b : FlagBuilder) (variation : Int) (keys : List String) : FlagBuilder :=
  { b with targets := b.targets ++ [{ values := keys, variation := variation }] }
/-- `AddContextTarget(kind, variationIndex, keys...)` -/
def addContextTarget (b : FlagBuilder) (kind : String) (variation : Int) (keys : List String) : FlagBuilder :=
  { b with contextTargets := b.contextTargets ++ [{ contextKind := kind, values := keys, variation := variation }] }
/-- `ClientSideUsingEnvironmentID(value)`: also sets `Explicit`. -/
def clientSideUsingEnvironmentID (b : FlagBuilder) (value : Bool) : FlagBuilder :=
  { b with fmeta := { b.fmeta with clientSide := { b.fmeta.clientSide with usingEnvironmentID := value, explicit := true } } }
/-- `ClientSideUsingMobileKey(value)`: also sets `Explicit`. -/
def clientSideUsingMobileKey (b : FlagBuilder) (value : Bool) : FlagBuilder :=
  { b with fmeta := { b.fmeta with clientSide := { b.fmeta.clientSide with usingMobileKey := value, explicit := true } } }
/-- `DebugEventsUntilDate(t)` (`ldtime.UnixMillisecondTime` = uint64) -/
def debugEventsUntilDate (b : FlagBuilder) (t : Nat) : FlagBuilder :=
  { b with fmeta := { b.fmeta with debugEventsUntilDate := t } }
/-- `Deleted(value)` -/
def deleted (b : FlagBuilder) (value : Bool) : FlagBuilder := { b with fmeta := { b.fmeta with deleted := value } }
/-- `ExcludeFromSummaries(value)` -/
def excludeFromSummaries (b : FlagBuilder) (value : Bool) : FlagBuilder := { b with excludeFromSummaries := value }
/-- `Fallthrough(vr)` -/
def fallthrough (b : FlagBuilder) (vr : VariationOrRollout) : FlagBuilder := { b with fallthrough := vr }
/-- `FallthroughVariation(variationIndex)` = `Fallthrough(Variation(variationIndex))` -/
def fallthroughVariation (b : FlagBuilder) (i : Int) : FlagBuilder := b.fallthrough (Builders.variation i)
/-- `MigrationFlagParameters(parameters)`: `b.flag.Migration = &parameters`. -/
def migrationFlagParameters (b : FlagBuilder) (parameters : Option Int) : FlagBuilder :=
  { b with fmeta := { b.fmeta with migration := some parameters } }
/-- `OffVariation(variationIndex)` -/
def offVariation (b : FlagBuilder) (i : Int) : FlagBuilder := { b with offVariation := some i }
/-- `On(value)` -/
def on (b : FlagBuilder) (value : Bool) : FlagBuilder := { b with on := value }
/-- `Salt(value)` -/
def salt (b : FlagBuilder) (value : String) : FlagBuilder := { b with salt := value }
/-- `SamplingRatio(samplingRatio)` -/
def samplingRatio (b : FlagBuilder) (r : Int) : FlagBuilder := { b with fmeta := { b.fmeta with samplingRatio := some r } }
/-- `TrackEvents(value)` -/
def trackEvents (b : FlagBuilder) (value : Bool) : FlagBuilder := { b with fmeta := { b.fmeta with trackEvents := value } }
/-- `TrackEventsFallthrough(value)` -/
def trackEventsFallthrough (b : FlagBuilder) (value : Bool) : FlagBuilder := { b with trackEventsFallthrough := value }
/-- `Variations(values...)` replaces the list. -/
def variations (b : FlagBuilder) (values : List J) : FlagBuilder := { b with variations := values }
/-- `Version(value)` -/
def version (b : FlagBuilder) (value : Int) : FlagBuilder := { b with fmeta := { b.fmeta with version := value } }
/-- `SingleVariation(value)` = `Variations(value).OffVariation(0).On(false)` -/
def singleVariation (b : FlagBuilder) (value : J) : FlagBuilder := ((b.variations [value]).offVariation 0).on false
end FlagBuilder

/-! ### segment_builder.go -/

abbrev SegmentRuleBuilder := SegmentRule

/-- `NewSegmentRuleBuilder()` -/
def newSegmentRuleBuilder : SegmentRuleBuilder := {}

namespace SegmentRuleBuilder
/-- `Build()` -/
def build (b : SegmentRuleBuilder) : SegmentRule := b
/-- `BucketBy(attr)`: a LITERAL name. -/
def bucketBy (b : SegmentRuleBuilder) (attr : String) : SegmentRuleBuilder := { b with bucketBy := Ref.newLiteral attr }
/-- `BucketByRef(attr)` -/
def bucketByRef (b : SegmentRuleBuilder) (attr : Ref) : SegmentRuleBuilder := { b with bucketBy := attr }
/-- `Clauses(clauses...)` -/
def clauses (b : SegmentRuleBuilder) (cs : List Clause) : SegmentRuleBuilder := { b with clauses := cs }
/-- `ID(id)` -/
def id (b : SegmentRuleBuilder) (id : String) : SegmentRuleBuilder := { b with id := id }
/-- `RolloutContextKind(kind)` -/
def rolloutContextKind (b : SegmentRuleBuilder) (kind : String) : SegmentRuleBuilder := { b with rolloutContextKind := kind }
/-- `Weight(value)` -/
def weight (b : SegmentRuleBuilder) (value : Int) : SegmentRuleBuilder := { b with weight := some value }
end SegmentRuleBuilder

abbrev SegmentBuilder := Segment

/-- `NewSegmentBuilder(key)` -/
def newSegmentBuilder (key : String) : SegmentBuilder := { key := key }

namespace SegmentBuilder
/-- `Build()`: `s := b.segment; ldmodel.PreprocessSegment(&s); return s`. -/
def build (rx : RegexOracle) (b : SegmentBuilder) : Segment := preprocessSegment rx b
/-- `AddRule(r)` -/
def addRule (b : SegmentBuilder) (r : SegmentRuleBuilder) : SegmentBuilder := { b with rules := b.rules ++ [r.build] }
/-- `Excluded(keys...)` replaces the list. -/
def excluded (b : SegmentBuilder) (keys : List String) : SegmentBuilder := { b with excluded := keys }
/-- `Included(keys...)` replaces the list. -/
def included (b : SegmentBuilder) (keys : List String) : SegmentBuilder := { b with included := keys }
/-- `IncludedContextKind(kind, keys...)` appends a target. -/
def includedContextKind (b : SegmentBuilder) (kind : String) (keys : List String) : SegmentBuilder :=
  { b with includedContexts := b.includedContexts ++ [{ contextKind := kind, values := keys }] }
/-- `ExcludedContextKind(kind, keys...)` appends a target. -/
def excludedContextKind (b : SegmentBuilder) (kind : String) (keys : List String) : SegmentBuilder :=
  { b with excludedContexts := b.excludedContexts ++ [{ contextKind := kind, values := keys }] }
/-- `Version(value)` -/
def version (b : SegmentBuilder) (value : Int) : SegmentBuilder := { b with version := value }
/-- `Salt(value)` -/
def salt (b : SegmentBuilder) (value : String) : SegmentBuilder := { b with salt := value }
/-- `Unbounded(value)` -/
def unbounded (b : SegmentBuilder) (value : Bool) : SegmentBuilder := { b with unbounded := value }
/-- `UnboundedContextKind(kind)` -/
def unboundedContextKind (b : SegmentBuilder) (kind : String) : SegmentBuilder := { b with unboundedContextKind := kind }
/-- `Generation(value)` -/
def generation (b : SegmentBuilder) (value : Int) : SegmentBuilder := { b with generation := some value }
end SegmentBuilder

end LD.Builders

/-
  LDEval.Model.Eval — evaluator.go and evaluator_segment.go.

  The recursion through the data store (prerequisite flags, nested segments) is by *fuel* with
  open recursion: `segContains (n+1) = segBody (segContains n)`, `evalFlag (n+1) = evalBody
  (evalFlag n)`; running out of fuel is the distinguished outcome `oof`, and theorem C10 shows it
  is unreachable from `evaluate` for every store.  All side channels are explicit state.
-/
import LDEval.Model.Bucket

namespace LD

inductive ErrKind where
  | malformedFlag | userNotSpecified | exception
  deriving DecidableEq, Repr, Inhabited

/-- `errorKindForError`: every internal error type has `errorKind() = MALFORMED_FLAG` except the
bare segment-cycle error, which has no `errorKind` method and falls back to EXCEPTION. -/
def EvalErr.kind : EvalErr → ErrKind
  | .circularSegment _ => .exception
  | _ => .malformedFlag

/-- The class a log line is reduced to (the innermost error of a malformed-segment wrapper). -/
inductive LogClass where
  | variation | attrMissing | attrInvalid | rollout | prereqCycle | segCycle
  deriving DecidableEq, Repr, Inhabited

def EvalErr.logClass : EvalErr → LogClass
  | .badVariation _ => .variation
  | .emptyAttr => .attrMissing
  | .badAttrRef _ => .attrInvalid
  | .emptyRollout => .rollout
  | .circularPrereq _ => .prereqCycle
  | .circularSegment _ => .segCycle
  | .malformedSegment _ e => e.logClass

inductive ReasonKind where
  | off | fallthrough | targetMatch | ruleMatch | prereqFailed | error
  deriving DecidableEq, Repr, Inhabited

/-- `ldreason.EvaluationReason` -/
structure Reason where
  kind : ReasonKind
  ruleIndex : Int := -1
  ruleId : String := ""
  prereqKey : String := ""
  errorKind : Option ErrKind := none
  inExperiment : Bool := false
  bigSegmentsStatus : Option Status := none
  deriving DecidableEq, Repr, Inhabited

namespace Reason
def off : Reason := { kind := .off }
def fallthrough : Reason := { kind := .fallthrough }
def targetMatch : Reason := { kind := .targetMatch }
def ruleMatch (i : Nat) (id : String) : Reason := { kind := .ruleMatch, ruleIndex := i, ruleId := id }
def prereqFailed (k : String) : Reason := { kind := .prereqFailed, prereqKey := k }
def error (k : ErrKind) : Reason := { kind := .error, errorKind := some k }
end Reason

/-- `ldreason.EvaluationDetail` -/
structure Detail where
  value : J := .null
  index : Option Int := none
  reason : Reason
  deriving Inhabited

def Detail.forError (k : ErrKind) : Detail := { reason := .error k }

/-- `evaluation.Result` -/
structure Result where
  detail : Detail
  isExperiment : Bool
  deriving Inhabited

/-- `PrerequisiteFlagEvent` (the context is the call's own context; the harness checks that). -/
structure Event where
  targetKey : String
  prereqKey : String
  prereqVersion : Int
  result : Result
  excludeFromSummaries : Bool
  deriving Inhabited

structure LogLine where
  flagKey : String
  err : EvalErr
  deriving DecidableEq, Repr, Inhabited

/-- Per-call state: the two lazily filled scope fields and every side channel. -/
structure St where
  status : Option Status := none
  cache : List (String × Membership) := []
  events : List Event := []
  logs : List LogLine := []
  flagLookups : List String := []
  segLookups : List String := []
  bsQueries : List String := []
  memChecks : List (String × String) := []
  deriving Inhabited

structure Env where
  opts : Opts
  store : Store
  bs : Option BSProvider
  ctx : Ctx
  rx : RegexOracle

/-- Outcome of a step that may fail with an evaluation error or run out of fuel. -/
inductive Res (α : Type) where
  | ok (a : α)
  | err (e : EvalErr)
  | oof
  deriving Inhabited

def Res.ofExcept {α} : Except EvalErr α → Res α
  | .ok a => .ok a
  | .error e => .err e

/-! ### Big-segment status -/

/-- `getBigSegmentsStatusPriority`: every string other than the three problem constants — HEALTHY,
an unknown string — falls into Go's `default: return 0`. -/
def Status.priority : Status → Nat
  | .healthy => 0 | .stale => 1 | .storeError => 2 | .notConfigured => 3 | .other _ => 0

/-- `getBigSegmentsStatusPriority` of a possibly empty status string: `""` is also `default: 0`. -/
def statusPriority : Option Status → Nat
  | none => 0
  | some s => s.priority

/-- `computeUpdatedBigSegmentsStatus`; `none` is the Go status `""`.
`old != "" && priority(old) > priority(new)` keeps `old`, everything else returns `new` — in
particular an `old` of priority 0 (HEALTHY, an unknown string) is REPLACED by `new = ""`, and among
statuses of equal priority the later one wins (`updateStatus_eq`). -/
def updateStatus (old : Option Status) (new : Option Status) : Option Status :=
  match old, new with
  | some o, some n => if o.priority > n.priority then some o else some n
  | some o, none => if o.priority > 0 then some o else none
  | none, n => n

/-- The Go text literally: `if old != "" && prio(old) > prio(new) { return old }; return new`
(the `old != ""` test is redundant because `prio("") = 0`). -/
theorem updateStatus_eq (old new : Option Status) :
    updateStatus old new = if statusPriority old > statusPriority new then old else new := by
  cases old <;> cases new <;> simp [updateStatus, statusPriority]

/-- `makeBigSegmentRef` -/
def bigSegmentRef (s : Segment) : String :=
  s.key ++ ".g" ++ toString (s.generation.getD 0)

/-! ### evaluator_segment.go -/

abbrev SegRec := Segment → List String → St → Res Bool × St

/-- The `segmentMatch` branch of `clauseMatchesContext`: any-of over the clause values.  The test is
`value.Type() == ldvalue.StringType`, so only a `.str` is a segment key: an unparsed `.raw (.str k)`
falls into the last case and is skipped. -/
def segMatchValues (rec : SegRec) (env : Env) (negate : Bool) (chain : List String) :
    List J → St → Res Bool × St
  | [], st => (.ok negate, st)
  | .str k :: vs, st =>
    let st1 := { st with segLookups := st.segLookups ++ [k] }
    match env.store.findSegment k with
    | none => segMatchValues rec env negate chain vs st1
    | some seg =>
      match rec seg chain st1 with
      | (.ok true, st2) => (.ok (!negate), st2)
      | (.ok false, st2) => segMatchValues rec env negate chain vs st2
      | (.err e, st2) => (.err e, st2)
      | (.oof, st2) => (.oof, st2)
  | _ :: vs, st => segMatchValues rec env negate chain vs st

/-- `clauseMatchesContext` -/
def clauseMatch (rec : SegRec) (env : Env) (chain : List String) (c : Clause) (st : St) :
    Res Bool × St :=
  if c.op == "segmentMatch" then segMatchValues rec env c.negate chain c.values st
  else (Res.ofExcept (clauseMatchNoSeg env.rx env.ctx c), st)

/-- All clauses of a rule, in order, stopping at the first non-match or error. -/
def clausesMatch (rec : SegRec) (env : Env) (chain : List String) : List Clause → St → Res Bool × St
  | [], st => (.ok true, st)
  | c :: cs, st =>
    match clauseMatch rec env chain c st with
    | (.ok true, st1) => clausesMatch rec env chain cs st1
    | r => r

/-- `segmentRuleMatchesContext` -/
def segRuleMatch (rec : SegRec) (env : Env) (chain : List String) (key salt : String)
    (r : SegmentRule) (st : St) : Res Bool × St :=
  match clausesMatch rec env chain r.clauses st with
  | (.ok true, st1) =>
    match r.weight with
    | none => (.ok true, st1)
    | some w =>
      match computeBucket env.opts.secondaryKey env.ctx false none r.rolloutContextKind key
              r.bucketBy salt with
      | .error e => (.err e, st1)
      | .ok (bucket, fail) =>
        if fail == .contextLacksKind then (.ok false, st1)
        else (.ok (decide (bucket < SoftF32.div (SoftF32.ofInt w) 100000)), st1)
  | (.ok false, st1) => (.ok false, st1)
  | r => r

/-- The rule loop of `segmentContainsContext`. -/
def segRules (rec : SegRec) (env : Env) (chain : List String) (s : Segment) :
    List SegmentRule → St → Res Bool × St
  | [], st => (.ok false, st)
  | r :: rs, st =>
    match segRuleMatch rec env chain s.key s.salt r st with
    | (.ok true, st1) => (.ok true, st1)
    | (.ok false, st1) => segRules rec env chain s rs st1
    | (.err e, st1) => (.err (.malformedSegment s.key e), st1)
    | (.oof, st1) => (.oof, st1)

/-- `segmentTargetMatchesContext` -/
def segTargetMatch (ctx : Ctx) (t : SegmentTarget) : Bool :=
  match ctx.keyByKind t.contextKind with
  | some k => t.findKey k
  | none => false

/-- The four list checks of a regular segment: `some b` decides, `none` goes on to the rules. -/
def segLists (ctx : Ctx) (s : Segment) : Option Bool :=
  let dk := ctx.keyByKind defaultKind
  let onlyDefault := ctx.kind == defaultKind
  let inDefault (vals : List String) (tbl : Option (List String)) : Bool :=
    match dk with | some k => findKey k vals tbl | none => false
  if inDefault s.included s.pre.includeMap then some true
  else if !onlyDefault && s.includedContexts.any (segTargetMatch ctx) then some true
  else if inDefault s.excluded s.pre.excludeMap then some false
  else if !onlyDefault && s.excludedContexts.any (segTargetMatch ctx) then some false
  else none

/-- The membership lookup for a big segment: cached answer, or a provider query that fills the
cache and merges the status, or NOT_CONFIGURED when there is no provider. -/
def bigSegMembership (env : Env) (key : String) (st : St) : Membership × St :=
  match st.cache.lookup key with
  | some m => (m, st)
  | none =>
    match env.bs with
    | none => (none, { st with status := some .notConfigured })
    | some p =>
      let a := p.get key
      (a.membership, { st with
        bsQueries := st.bsQueries ++ [key]
        cache := st.cache ++ [(key, a.membership)]
        status := updateStatus st.status a.status })

/-- One level of `segmentContainsContext`, recursing through `rec`. -/
def segBody (rec : SegRec) (env : Env) (s : Segment) (chain : List String) (st : St) :
    Res Bool × St :=
  if chain.contains s.key then (.err (.circularSegment s.key), st)
  else
    let chain' := chain ++ [s.key]
    if s.unbounded then
      match s.generation with
      | none => (.ok false, { st with status := some .notConfigured })
      | some _ =>
        match env.ctx.keyByKind s.unboundedContextKind with
        | none => (.ok false, st)
        | some key =>
          let (m, st1) := bigSegMembership env key st
          match m with
          | none => segRules rec env chain' s s.rules st1
          | some tbl =>
            let ref := bigSegmentRef s
            let st2 := { st1 with memChecks := st1.memChecks ++ [(key, ref)] }
            match tbl.lookup ref with
            | some b => (.ok b, st2)
            | none => segRules rec env chain' s s.rules st2
    else
      match segLists env.ctx s with
      | some b => (.ok b, st)
      | none => segRules rec env chain' s s.rules st

/-- `segmentContainsContext` with fuel. -/
def segContains : Nat → Env → Segment → List String → St → Res Bool × St
  | 0, _, _, _, st => (.oof, st)
  | n+1, env, s, chain, st => segBody (segContains n env) env s chain st

/-! ### evaluator.go -/

def logErr (env : Env) (flagKey : String) (e : EvalErr) (st : St) : St :=
  if env.opts.logger then { st with logs := st.logs ++ [⟨flagKey, e⟩] } else st

/-- `getVariation` -/
def getVariation (env : Env) (f : Flag) (index : Int) (reason : Reason) (st : St) : Detail × St :=
  if index < 0 ∨ index ≥ f.variations.length then
    (Detail.forError .malformedFlag, logErr env f.key (.badVariation index) st)
  else
    ({ value := f.variations.getD index.toNat .null, index := some index, reason := reason }, st)

/-- `getOffValue` -/
def getOffValue (env : Env) (f : Flag) (reason : Reason) (st : St) : Detail × St :=
  match f.offVariation with
  | none => ({ reason := reason }, st)
  | some i => getVariation env f i reason st

/-- The threshold scan of `variationOrRolloutResult`. -/
def rolloutScan (bucket : Rat) (isExp : Bool) (lacksKind : Bool) :
    List WeightedVariation → Rat → Option (Int × Bool)
  | [], _ => none
  | wv :: rest, sum =>
    let sum' := SoftF32.add sum (SoftF32.div (SoftF32.ofInt wv.weight) 100000)
    if bucket < sum' then some (wv.variation, isExp && !wv.untracked && !lacksKind)
    else rolloutScan bucket isExp lacksKind rest sum'

/-- `variationOrRolloutResult`: (variation index, inExperiment) or an error. -/
def variationOrRollout (env : Env) (vr : VariationOrRollout) (key salt : String) :
    Except EvalErr (Int × Bool) :=
  match vr.variation with
  | some v => .ok (v, false)
  | none =>
    match vr.rollout.variations.getLast? with
    | none => .error .emptyRollout
    | some last =>
      let isExp := vr.rollout.isExperiment
      match computeBucket env.opts.secondaryKey env.ctx isExp vr.rollout.seed vr.rollout.contextKind
              key vr.rollout.bucketBy salt with
      | .error e => .error e
      | .ok (bucket, fail) =>
        let lacksKind := fail == .contextLacksKind
        match rolloutScan bucket isExp lacksKind vr.rollout.variations 0 with
        | some r => .ok r
        | none => .ok (last.variation, isExp && !last.untracked && !lacksKind)

/-- `reasonToExperimentReason` -/
def Reason.toExperiment (r : Reason) : Reason :=
  match r.kind with
  | .fallthrough | .ruleMatch => { r with inExperiment := true }
  | _ => r

/-- `getValueForVariationOrRollout` -/
def getValueForVR (env : Env) (f : Flag) (vr : VariationOrRollout) (reason : Reason) (st : St) :
    Detail × St :=
  match variationOrRollout env vr f.key f.salt with
  | .error e => (Detail.forError e.kind, logErr env f.key e st)
  | .ok (index, inExp) =>
    getVariation env f index (if inExp then reason.toExperiment else reason) st

/-- `targetMatchVariation` -/
def targetMatch (ctx : Ctx) (t : Target) : Option Int :=
  match ctx.byKind t.contextKind with
  | some sc => if t.findKey sc.key then some t.variation else none
  | none => none

/-- `anyTargetMatchVariation` -/
def anyTargetMatch (ctx : Ctx) (f : Flag) : Option Int :=
  if f.contextTargets.isEmpty then
    f.targets.findSome? (targetMatch ctx)
  else
    f.contextTargets.findSome? fun t =>
      if (t.contextKind == "" || t.contextKind == defaultKind) && t.values.isEmpty then
        match f.targets.find? (fun t1 => t1.variation == t.variation) with
        | some t1 => targetMatch ctx t1
        | none => none
      else targetMatch ctx t

/-- `isExperiment` -/
def isExperimentResult (f : Flag) (r : Reason) : Bool :=
  if r.inExperiment then true
  else match r.kind with
    | .fallthrough => f.trackEventsFallthrough
    | .ruleMatch =>
      if r.ruleIndex ≥ 0 then
        match f.rules[r.ruleIndex.toNat]? with
        | some rule => rule.trackEvents
        | none => false
      else false
    | _ => false

/-- Outcome of evaluating one flag: the detail and the `ok` flag (false = abort everything). -/
inductive FlagOut where
  | done (d : Detail) (ok : Bool)
  | oof
  deriving Inhabited

abbrev FlagRec := Flag → List String → St → FlagOut × St

/-- Outcome of `checkPrerequisites`. -/
inductive PrereqOut where
  | ok
  | failed (key : String)
  | malformed
  | oof
  deriving Inhabited

/-- The prerequisite loop of `checkPrerequisites` (with `evaluatePrerequisite` inlined);
`chain` already includes the dependent flag's key. -/
def prereqLoop (rec : FlagRec) (env : Env) (f : Flag) (chain : List String) :
    List Prereq → St → PrereqOut × St
  | [], st => (.ok, st)
  | p :: ps, st =>
    let st1 := { st with flagLookups := st.flagLookups ++ [p.key] }
    match env.store.findFlag p.key with
    | none => (.failed p.key, st1)
    | some pf =>
      if chain.contains pf.key then
        (.malformed, logErr env f.key (.circularPrereq pf.key) st1)
      else
        match rec pf chain st1 with
        | (.oof, st2) => (.oof, st2)
        | (.done d ok, st2) =>
          -- the sub-scope was a copy of the scope: merge its status back (the cache is shared
          -- or, since the fix, handed back)
          let st3 := { st2 with status := updateStatus st1.status st2.status }
          if !ok then (.malformed, st3)
          else
            let prereqOK := pf.on && d.index.isSome && d.index == some p.variation
            let st4 :=
              if env.opts.recorder then
                { st3 with events := st3.events ++
                    [{ targetKey := f.key, prereqKey := pf.key, prereqVersion := pf.fmeta.version,
                       result := ⟨d, isExperimentResult pf d.reason⟩,
                       excludeFromSummaries := pf.excludeFromSummaries }] }
              else st3
            if !prereqOK then (.failed p.key, st4)
            else prereqLoop rec env f chain ps st4

/-- `checkPrerequisites` -/
def checkPrereqs (rec : FlagRec) (env : Env) (f : Flag) (chain : List String) (st : St) :
    PrereqOut × St :=
  if f.prerequisites.isEmpty then (.ok, st)
  else prereqLoop rec env f (chain ++ [f.key]) f.prerequisites st

/-- The rule loop of `evaluate`. -/
def rulesLoop (seg : SegRec) (env : Env) (f : Flag) : List FlagRule → Nat → St → FlagOut × St
  | [], _, st =>
    let (d, st1) := getValueForVR env f f.fallthrough .fallthrough st
    (.done d true, st1)
  | r :: rs, i, st =>
    match clausesMatch seg env [] r.clauses st with
    | (.err e, st1) => (.done (Detail.forError e.kind) false, logErr env f.key e st1)
    | (.oof, st1) => (.oof, st1)
    | (.ok true, st1) =>
      let (d, st2) := getValueForVR env f r.vr (.ruleMatch i r.id) st1
      (.done d true, st2)
    | (.ok false, st1) => rulesLoop seg env f rs (i + 1) st1

/-- One level of `evaluationScope.evaluate`, recursing into prerequisites through `rec`. -/
def evalBody (rec : FlagRec) (seg : SegRec) (env : Env) (f : Flag) (chain : List String) (st : St) :
    FlagOut × St :=
  if !f.on then
    let (d, st1) := getOffValue env f .off st
    (.done d true, st1)
  else
    match checkPrereqs rec env f chain st with
    | (.oof, st1) => (.oof, st1)
    | (.malformed, st1) => (.done (Detail.forError .malformedFlag) false, st1)
    | (.failed k, st1) =>
      let (d, st2) := getOffValue env f (.prereqFailed k) st1
      (.done d true, st2)
    | (.ok, st1) =>
      match anyTargetMatch env.ctx f with
      | some v =>
        let (d, st2) := getVariation env f v .targetMatch st1
        (.done d true, st2)
      | none => rulesLoop seg env f f.rules 0 st1

/-- `evaluationScope.evaluate` with fuel for the prerequisite recursion. -/
def evalFlag (segFuel : Nat) : Nat → Env → Flag → List String → St → FlagOut × St
  | 0, _, _, _, st => (.oof, st)
  | n+1, env, f, chain, st =>
    evalBody (evalFlag segFuel n env) (segContains segFuel env) env f chain st

/-- Number of distinct keys (for the fuel bound). -/
def distinctCount (ks : List String) : Nat := ks.eraseDups.length

/-- The fuel counts the distinct OWN keys of the stored items: every nested evaluation appends the own
key of an item returned by the store to the chain, and that key was not yet on the chain. -/
def flagFuel (s : Store) : Nat := distinctCount (s.flags.map (·.2.key)) + 2
def segFuel (s : Store) : Nat := distinctCount (s.segments.map (·.2.key)) + 2

inductive Outcome where
  | done | outOfFuel
  deriving DecidableEq, Repr, Inhabited

/-- Everything observable about one call of `Evaluator.Evaluate`. -/
structure Obs where
  outcome : Outcome
  result : Result
  events : List Event
  logs : List LogLine
  flagLookups : List String
  segLookups : List String
  bsQueries : List String
  memChecks : List (String × String)
  deriving Inhabited

/-- `Evaluator.Evaluate` -/
def evaluate (env : Env) (f : Flag) : Obs :=
  match env.ctx with
  | .invalid =>
    { outcome := .done, result := ⟨Detail.forError .userNotSpecified, false⟩,
      events := [], logs := [], flagLookups := [], segLookups := [], bsQueries := [], memChecks := [] }
  | _ =>
    let (out, st) := evalFlag (segFuel env.store) (flagFuel env.store) env f [] {}
    let (outcome, d) : Outcome × Detail :=
      match out with
      | .done d _ => (.done, d)
      | .oof => (.outOfFuel, Detail.forError .exception)
    let d := match st.status with
      | some s => { d with reason := { d.reason with bigSegmentsStatus := some s } }
      | none => d
    { outcome := outcome, result := ⟨d, isExperimentResult f d.reason⟩,
      events := st.events, logs := st.logs, flagLookups := st.flagLookups,
      segLookups := st.segLookups, bsQueries := st.bsQueries, memChecks := st.memChecks }

end LD

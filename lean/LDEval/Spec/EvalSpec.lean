/-
  LDEval.Spec.EvalSpec — the *stateless* specification of evaluation: what a flag evaluates to as
  a pure function of (options, store, big-segment provider answers, context, flag), with no
  per-call state, no cache, no logs, no events.  `Proofs/Refine.lean` shows that the code-shaped
  model (`Model/Eval.lean`, which threads the lazily filled cache, status and side channels)
  computes exactly this, from any state whose cache is consistent with the provider.
-/
import LDEval.Model.Eval

namespace LD.Spec

/-- What the big-segment provider answers for a context key (pure within one call). -/
def membershipOf (env : Env) (key : String) : Membership :=
  match env.bs with
  | none => none
  | some p => (p.get key).membership

abbrev SegRec := Segment → List String → Res Bool

/-- A segment-match clause: true iff the context is in at least one referenced segment that exists
in the store (non-string values — an unparsed `J.raw` string included, its type is not the string
type — and missing segments are skipped); `negate` inverts exactly that.
Evaluation is left to right and stops at the first member segment or the first error. -/
def segMatchValues (rec : SegRec) (env : Env) (negate : Bool) (chain : List String) : List J → Res Bool
  | [] => .ok negate
  | .str k :: vs =>
    match env.store.findSegment k with
    | none => segMatchValues rec env negate chain vs
    | some seg =>
      match rec seg chain with
      | .ok true => .ok (!negate)
      | .ok false => segMatchValues rec env negate chain vs
      | .err e => .err e
      | .oof => .oof
  | _ :: vs => segMatchValues rec env negate chain vs

def clauseMatch (rec : SegRec) (env : Env) (chain : List String) (c : Clause) : Res Bool :=
  if c.op == "segmentMatch" then segMatchValues rec env c.negate chain c.values
  else Res.ofExcept (clauseMatchNoSeg env.rx env.ctx c)

/-- All clauses match (left to right, stopping at the first non-match or error). -/
def clausesMatch (rec : SegRec) (env : Env) (chain : List String) : List Clause → Res Bool
  | [] => .ok true
  | c :: cs =>
    match clauseMatch rec env chain c with
    | .ok true => clausesMatch rec env chain cs
    | r => r

/-- A segment rule matches iff all its clauses match and, when it is weighted, the context has the
rollout kind and its bucket for (segment key, salt) is below weight/100000 in single precision. -/
def segRuleMatch (rec : SegRec) (env : Env) (chain : List String) (key salt : String)
    (r : SegmentRule) : Res Bool :=
  match clausesMatch rec env chain r.clauses with
  | .ok true =>
    match r.weight with
    | none => .ok true
    | some w =>
      match computeBucket env.opts.secondaryKey env.ctx false none r.rolloutContextKind key
              r.bucketBy salt with
      | .error e => .err e
      | .ok (bucket, fail) =>
        if fail == .contextLacksKind then .ok false
        else .ok (decide (bucket < SoftF32.div (SoftF32.ofInt w) 100000))
  | .ok false => .ok false
  | r => r

def segRules (rec : SegRec) (env : Env) (chain : List String) (s : Segment) : List SegmentRule → Res Bool
  | [] => .ok false
  | r :: rs =>
    match segRuleMatch rec env chain s.key s.salt r with
    | .ok true => .ok true
    | .ok false => segRules rec env chain s rs
    | .err e => .err (.malformedSegment s.key e)
    | .oof => .oof

/-- One level of segment membership. -/
def segBody (rec : SegRec) (env : Env) (s : Segment) (chain : List String) : Res Bool :=
  if chain.contains s.key then .err (.circularSegment s.key)
  else
    let chain' := chain ++ [s.key]
    if s.unbounded then
      match s.generation with
      | none => .ok false
      | some _ =>
        match env.ctx.keyByKind s.unboundedContextKind with
        | none => .ok false
        | some key =>
          match membershipOf env key with
          | none => segRules rec env chain' s s.rules
          | some tbl =>
            match tbl.lookup (bigSegmentRef s) with
            | some b => .ok b
            | none => segRules rec env chain' s s.rules
    else
      match segLists env.ctx s with
      | some b => .ok b
      | none => segRules rec env chain' s s.rules

def segContains : Nat → Env → Segment → List String → Res Bool
  | 0, _, _, _ => .oof
  | n+1, env, s, chain => segBody (segContains n env) env s chain

/-! ### Flags -/

/-- `getVariation` without the log. -/
def getVariation (f : Flag) (index : Int) (reason : Reason) : Detail :=
  if index < 0 ∨ index ≥ f.variations.length then Detail.forError .malformedFlag
  else { value := f.variations.getD index.toNat .null, index := some index, reason := reason }

def getOffValue (f : Flag) (reason : Reason) : Detail :=
  match f.offVariation with
  | none => { reason := reason }
  | some i => getVariation f i reason

def getValueForVR (env : Env) (f : Flag) (vr : VariationOrRollout) (reason : Reason) : Detail :=
  match variationOrRollout env vr f.key f.salt with
  | .error e => Detail.forError e.kind
  | .ok (index, inExp) => getVariation f index (if inExp then reason.toExperiment else reason)

/-- Outcome of one flag: detail and `ok` (false = the whole evaluation is aborted), or out of fuel. -/
abbrev FlagRec := Flag → List String → Option (Detail × Bool)

inductive PrereqOut where
  | ok | failed (key : String) | malformed | oof
  deriving Inhabited

/-- Prerequisites in listed order: the first that is missing, off, or whose own evaluation does
not yield exactly the required variation fails the flag; a cycle or an aborted nested evaluation
aborts everything. -/
def prereqLoop (rec : FlagRec) (env : Env) (chain : List String) : List Prereq → PrereqOut
  | [] => .ok
  | p :: ps =>
    match env.store.findFlag p.key with
    | none => .failed p.key
    | some pf =>
      if chain.contains pf.key then .malformed
      else
        match rec pf chain with
        | none => .oof
        | some (d, ok) =>
          if !ok then .malformed
          else if pf.on && d.index.isSome && d.index == some p.variation then prereqLoop rec env chain ps
          else .failed p.key

def checkPrereqs (rec : FlagRec) (env : Env) (f : Flag) (chain : List String) : PrereqOut :=
  if f.prerequisites.isEmpty then .ok
  else prereqLoop rec env (chain ++ [f.key]) f.prerequisites

/-- First rule, in listed order, all of whose clauses match; else the fallthrough. -/
def rulesLoop (seg : SegRec) (env : Env) (f : Flag) : List FlagRule → Nat → Option (Detail × Bool)
  | [], _ => some (getValueForVR env f f.fallthrough .fallthrough, true)
  | r :: rs, i =>
    match clausesMatch seg env [] r.clauses with
    | .err e => some (Detail.forError e.kind, false)
    | .oof => none
    | .ok true => some (getValueForVR env f r.vr (.ruleMatch i r.id), true)
    | .ok false => rulesLoop seg env f rs (i + 1)

/-- The five stages in their fixed order: off → prerequisites → targets → rules → fallthrough. -/
def evalBody (rec : FlagRec) (seg : SegRec) (env : Env) (f : Flag) (chain : List String) :
    Option (Detail × Bool) :=
  if !f.on then some (getOffValue f .off, true)
  else
    match checkPrereqs rec env f chain with
    | .oof => none
    | .malformed => some (Detail.forError .malformedFlag, false)
    | .failed k => some (getOffValue f (.prereqFailed k), true)
    | .ok =>
      match anyTargetMatch env.ctx f with
      | some v => some (getVariation f v .targetMatch, true)
      | none => rulesLoop seg env f f.rules 0

def evalFlag (segFuel : Nat) : Nat → Env → Flag → List String → Option (Detail × Bool)
  | 0, _, _, _ => none
  | n+1, env, f, chain => evalBody (evalFlag segFuel n env) (segContains segFuel env) env f chain

end LD.Spec

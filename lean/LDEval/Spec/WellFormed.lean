/-
  LDEval.Spec.WellFormed — the well-formedness trichotomy of property C01, as a Prop and as the
  executable check the driver evaluates on Go's own results.
-/
import LDEval.Model.Eval

namespace LD

mutual
/-- Structural equality of JSON values (object members compared in order). -/
def J.beq : J → J → Bool
  | .null, .null => true
  | .bool a, .bool b => a == b
  | .num a, .num b => a == b
  | .str a, .str b => a == b
  | .arr xs, .arr ys => J.beqList xs ys
  | .obj xs, .obj ys => J.beqKvs xs ys
  | .raw a, .raw b => J.beq a b
  | _, _ => false
def J.beqList : List J → List J → Bool
  | [], [] => true
  | x :: xs, y :: ys => J.beq x y && J.beqList xs ys
  | _, _ => false
def J.beqKvs : List (String × J) → List (String × J) → Bool
  | [], [] => true
  | (k, x) :: xs, (k', y) :: ys => k == k' && J.beq x y && J.beqKvs xs ys
  | _, _ => false
end

/-- C01: a result is (a) an in-range index with exactly that variation's value and a non-error
reason, or (b) no index, null value and an error reason of kind MALFORMED_FLAG or
USER_NOT_SPECIFIED, or (c) — only when the flag has no off variation — no index, null value and
reason OFF or PREREQUISITE_FAILED. -/
def WellFormed (f : Flag) (d : Detail) : Prop :=
  (∃ i : Nat, d.index = some (i : Int) ∧ i < f.variations.length ∧
      d.value = f.variations.getD i .null ∧ d.reason.kind ≠ .error ∧ d.reason.errorKind = none)
  ∨ (d.index = none ∧ d.value = .null ∧ d.reason.kind = .error ∧
      (d.reason.errorKind = some .malformedFlag ∨ d.reason.errorKind = some .userNotSpecified))
  ∨ (d.index = none ∧ d.value = .null ∧ f.offVariation = none ∧ d.reason.errorKind = none ∧
      (d.reason.kind = .off ∨ d.reason.kind = .prereqFailed))

/-- Executable version (evaluated by the driver on the result the Go code returned). -/
def wellFormedB (f : Flag) (d : Detail) : Bool :=
  (match d.index with
   | some i => decide (0 ≤ i) && decide (i.toNat < f.variations.length) &&
       J.beq d.value (f.variations.getD i.toNat .null) && d.reason.kind != .error &&
       d.reason.errorKind.isNone
   | none => false)
  || (d.index.isNone && J.beq d.value .null && d.reason.kind == .error &&
       (d.reason.errorKind == some .malformedFlag || d.reason.errorKind == some .userNotSpecified))
  || (d.index.isNone && J.beq d.value .null && f.offVariation.isNone && d.reason.errorKind.isNone &&
       (d.reason.kind == .off || d.reason.kind == .prereqFailed))

end LD

/-
  LDEval.Spec.Schema — the wire schema of property C16 as a decidable predicate on JSON trees:
  every legacy property present with its schema type (lists are arrays, never null, at every
  nesting level), optional properties well-typed when present.
-/
import LDEval.Model.Codec

namespace LD.Schema

inductive Ty where
  | str | bool | num | numOrNull | arr | obj
  deriving DecidableEq, Repr

def hasTy : Ty → J → Bool
  | .str, .str _ => true
  | .bool, .bool _ => true
  | .num, .num _ => true
  | .numOrNull, .num _ => true
  | .numOrNull, .null => true
  | .arr, .arr _ => true
  | .obj, .obj _ => true
  | _, _ => false

/-- Required member `k` is present with type `t`. -/
def req (kvs : List (String × J)) (k : String) (t : Ty) : Bool :=
  match kvs.lookup k with
  | some v => hasTy t v
  | none => false

/-- Optional member `k`, if present, has type `t`. -/
def opt (kvs : List (String × J)) (k : String) (t : Ty) : Bool :=
  match kvs.lookup k with
  | some v => hasTy t v
  | none => true

def allArr (v : J) (p : J → Bool) : Bool :=
  match v with
  | .arr xs => xs.all p
  | _ => false

def getD (kvs : List (String × J)) (k : String) : J := (kvs.lookup k).getD .null

def isStr : J → Bool | .str _ => true | _ => false

def clauseOK : J → Bool
  | .obj kvs => req kvs "attribute" .str && req kvs "op" .str && req kvs "values" .arr &&
      req kvs "negate" .bool && opt kvs "contextKind" .str
  | _ => false

def wvOK : J → Bool
  | .obj kvs => req kvs "variation" .num && req kvs "weight" .num && opt kvs "untracked" .bool
  | _ => false

def rolloutOK : J → Bool
  | .obj kvs => req kvs "variations" .arr && allArr (getD kvs "variations") wvOK &&
      opt kvs "kind" .str && opt kvs "contextKind" .str && opt kvs "seed" .num && opt kvs "bucketBy" .str
  | _ => false

/-- The variation/rollout members shared by rules and the fallthrough. -/
def vrOK (kvs : List (String × J)) : Bool :=
  opt kvs "variation" .num && (match kvs.lookup "rollout" with | some r => rolloutOK r | none => true)

def targetOK : J → Bool
  | .obj kvs => req kvs "variation" .num && req kvs "values" .arr && allArr (getD kvs "values") isStr &&
      opt kvs "contextKind" .str
  | _ => false

def prereqOK : J → Bool
  | .obj kvs => req kvs "key" .str && req kvs "variation" .num
  | _ => false

def ruleOK : J → Bool
  | .obj kvs => req kvs "clauses" .arr && allArr (getD kvs "clauses") clauseOK &&
      req kvs "trackEvents" .bool && opt kvs "id" .str && vrOK kvs
  | _ => false

def fallthroughOK : J → Bool
  | .obj kvs => vrOK kvs
  | _ => false

/-- C16: the flag wire schema. -/
def flagOK : J → Bool
  | .obj kvs =>
    req kvs "key" .str && req kvs "on" .bool &&
    req kvs "prerequisites" .arr && allArr (getD kvs "prerequisites") prereqOK &&
    req kvs "targets" .arr && allArr (getD kvs "targets") targetOK &&
    req kvs "contextTargets" .arr && allArr (getD kvs "contextTargets") targetOK &&
    req kvs "rules" .arr && allArr (getD kvs "rules") ruleOK &&
    req kvs "fallthrough" .obj && fallthroughOK (getD kvs "fallthrough") &&
    req kvs "offVariation" .numOrNull && req kvs "variations" .arr &&
    req kvs "clientSide" .bool && req kvs "salt" .str && req kvs "trackEvents" .bool &&
    req kvs "trackEventsFallthrough" .bool && req kvs "debugEventsUntilDate" .numOrNull &&
    req kvs "version" .num && req kvs "deleted" .bool &&
    opt kvs "clientSideAvailability" .obj && opt kvs "migration" .obj &&
    opt kvs "samplingRatio" .num && opt kvs "excludeFromSummaries" .bool
  | _ => false

def segTargetOK : J → Bool
  | .obj kvs => req kvs "values" .arr && allArr (getD kvs "values") isStr && opt kvs "contextKind" .str
  | _ => false

def segRuleOK : J → Bool
  | .obj kvs => req kvs "id" .str && req kvs "clauses" .arr && allArr (getD kvs "clauses") clauseOK &&
      opt kvs "weight" .num && opt kvs "bucketBy" .str && opt kvs "rolloutContextKind" .str
  | _ => false

/-- C16: the segment wire schema. -/
def segmentOK : J → Bool
  | .obj kvs =>
    req kvs "key" .str &&
    req kvs "included" .arr && allArr (getD kvs "included") isStr &&
    req kvs "excluded" .arr && allArr (getD kvs "excluded") isStr &&
    req kvs "includedContexts" .arr && allArr (getD kvs "includedContexts") segTargetOK &&
    req kvs "excludedContexts" .arr && allArr (getD kvs "excludedContexts") segTargetOK &&
    req kvs "salt" .str && req kvs "rules" .arr && allArr (getD kvs "rules") segRuleOK &&
    req kvs "version" .num && req kvs "generation" .numOrNull && req kvs "deleted" .bool &&
    opt kvs "unbounded" .bool && opt kvs "unboundedContextKind" .str
  | _ => false

end LD.Schema

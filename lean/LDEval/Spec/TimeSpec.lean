/-
  LDEval.Spec.TimeSpec — the specification vocabulary for the RFC 3339 timestamp parser of
  LDEval.Model.Time: a *renderer* from structured timestamps to bytes, and the instant a structured
  timestamp denotes.  The correctness theorem (LDEval.Proofs.Time) is
  `parseBytes s.render = some s.denotes` for every valid `s`.

  Core Lean only.
-/
import LDEval.Model.Time

namespace LD.Time
open LD.Scan

/-- n rendered as exactly `w` decimal digit bytes (n < 10^w); most significant digit first. -/
def digitsN : Nat → Nat → List UInt8
  | 0, _ => []
  | w + 1, n => digitsN w (n / 10) ++ [UInt8.ofNat (48 + n % 10)]

/-- Time-zone designator. -/
inductive Zone where
  | utc (lower : Bool)
  | offset (plus : Bool) (hh mm : Nat)
  deriving DecidableEq, Repr

/-- First byte of the designator: `Z`, `z`, `+` or `-`. -/
def Zone.head : Zone → UInt8
  | .utc lower => if lower then c 'z' else c 'Z'
  | .offset plus _ _ => if plus then c '+' else c '-'

/-- What follows the first byte: nothing, or `hh:mm`. -/
def Zone.rest : Zone → List UInt8
  | .utc _ => []
  | .offset _ hh mm => digitsN 2 hh ++ c ':' :: digitsN 2 mm

/-- `Z` | `z` | `+hh:mm` | `-hh:mm` -/
def Zone.render (z : Zone) : List UInt8 := z.head :: z.rest

def Zone.Valid : Zone → Prop
  | .utc _ => True
  | .offset _ hh mm => hh ≤ 99 ∧ mm ≤ 59

instance (z : Zone) : Decidable z.Valid := by
  cases z <;> unfold Zone.Valid <;> infer_instance

/-- Seconds east of UTC (`+hh:mm` is positive). -/
def Zone.offsetSeconds : Zone → Int
  | .utc _ => 0
  | .offset plus hh mm =>
    if plus then (((hh * 60 + mm) * 60 : Nat) : Int) else -(((hh * 60 + mm) * 60 : Nat) : Int)

structure Stamp where
  year : Nat
  month : Nat
  day : Nat
  hour : Nat
  minute : Nat
  second : Nat
  /-- 0..9 fractional-second digit bytes (`[]` = no fraction part at all, no `.` printed) -/
  frac : List UInt8
  zone : Zone
  /-- `t` instead of `T` -/
  tLower : Bool
  /-- render the hour with one digit when hour < 10 (the parser accepts it) -/
  hour1 : Bool
  deriving Repr

/-- The well-formedness conditions under which `render` produces an (extended) RFC 3339 string.
`second = 60` (leap second) and offsets up to `±99:59` are what the parser accepts. -/
def Stamp.Valid (s : Stamp) : Prop :=
  s.year ≤ 9999 ∧ (1 ≤ s.month ∧ s.month ≤ 12) ∧ (1 ≤ s.day ∧ s.day ≤ 31) ∧
  s.hour ≤ 23 ∧ s.minute ≤ 59 ∧ s.second ≤ 60 ∧
  s.frac.length ≤ 9 ∧ s.frac.all isDigit = true ∧
  s.zone.Valid ∧ (s.hour1 = true → s.hour < 10)

instance (s : Stamp) : Decidable s.Valid := by
  unfold Stamp.Valid; infer_instance

/-- `T` or `t`. -/
def Stamp.tSep (s : Stamp) : UInt8 := if s.tLower then c 't' else c 'T'

/-- `[.frac]` followed by the zone designator. -/
def Stamp.renderTail (s : Stamp) : List UInt8 :=
  (if s.frac = [] then [] else c '.' :: s.frac) ++ s.zone.render

/-- `YYYY-MM-DDTHH:MM:SS[.frac](Z|z|+hh:mm|-hh:mm)` -/
def Stamp.render (s : Stamp) : List UInt8 :=
  digitsN 4 s.year ++ c '-' :: (digitsN 2 s.month ++ c '-' :: (digitsN 2 s.day ++ s.tSep ::
    (digitsN (if s.hour1 then 1 else 2) s.hour ++ c ':' :: (digitsN 2 s.minute ++ c ':' ::
      (digitsN 2 s.second ++ s.renderTail)))))

/-- Length of the mandatory part `YYYY-MM-DDTHH:MM:SS` plus the byte that terminates the seconds
(`.` or the first byte of the zone designator): 20, or 19 with a one-digit hour. -/
def minimalLength (s : Stamp) : Nat := if s.hour1 then 19 else 20

/-- Nanoseconds of the fraction: the digits, right-padded with zeros to nine places. -/
def Stamp.nanos (s : Stamp) : Nat := digitsVal s.frac 0 * 10 ^ (9 - s.frac.length)

/-- The instant denoted (ns since the Unix epoch): the civil date-time read as UTC, minus the
zone's offset east of UTC. -/
def Stamp.denotes (s : Stamp) : Int :=
  instant s.year s.month s.day s.hour s.minute s.second s.nanos
    - s.zone.offsetSeconds * 1000000000

/-! The Gregorian calendar table, against which `daysFromCivil` is validated. -/

/-- Gregorian leap year. -/
def isLeapYear (y : Int) : Prop := y % 4 = 0 ∧ (y % 100 ≠ 0 ∨ y % 400 = 0)

instance (y : Int) : Decidable (isLeapYear y) := by unfold isLeapYear; infer_instance

/-- Days in month `m` (1..12) of year `y`. -/
def daysInMonth (y m : Int) : Int :=
  if m = 2 then (if isLeapYear y then 29 else 28)
  else if m = 4 ∨ m = 6 ∨ m = 9 ∨ m = 11 then 30 else 31

/-- Days in year `y`. -/
def daysInYear (y : Int) : Int := if isLeapYear y then 366 else 365

/-! Renderer sanity checks (evaluated at compile time). -/

private def ex1 : Stamp :=
  { year := 2020, month := 1, day := 2, hour := 3, minute := 4, second := 5,
    frac := "678".toUTF8.toList, zone := .offset true 1 30, tLower := false, hour1 := false }
private def ex2 : Stamp :=
  { year := 1970, month := 1, day := 1, hour := 0, minute := 0, second := 0,
    frac := [], zone := .utc false, tLower := false, hour1 := false }
private def ex3 : Stamp :=
  { year := 33, month := 12, day := 31, hour := 7, minute := 59, second := 60,
    frac := "000000001".toUTF8.toList, zone := .offset false 99 59, tLower := true, hour1 := true }

#guard ex1.render = "2020-01-02T03:04:05.678+01:30".toUTF8.toList
#guard ex2.render = "1970-01-01T00:00:00Z".toUTF8.toList
#guard ex3.render = "0033-12-31t7:59:60.000000001-99:59".toUTF8.toList
#guard decide ex1.Valid && decide ex2.Valid && decide ex3.Valid
#guard ex2.denotes = 0
#guard ex1.denotes = 1577928845678000000      -- 2020-01-02T01:34:05.678Z
#guard parseBytes ex1.render = some ex1.denotes
#guard parseBytes ex3.render = some ex3.denotes
#guard ex1.render.length = 29 ∧ minimalLength ex1 = 20 ∧ minimalLength ex3 = 19

end LD.Time

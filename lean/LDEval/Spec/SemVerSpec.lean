/-
  LDEval.Spec.SemVerSpec — the specification vocabulary for the semantic-version engine of
  LDEval.Model.SemVer, written from Semantic Versioning 2.0.0 (semver.org):

  * §2, §9, §10 (grammar): a *renderer* from structured versions (`Parts`) to bytes,
    `M[.m[.p]][-pre.release.ids][+build.ids]` — minor and patch may be omitted (the LaunchDarkly
    extension), identifiers are non-empty `[0-9A-Za-z-]` strings, numeric prerelease identifiers
    have no leading zero;
  * §11 (precedence): `Spec.compare`, by structural recursion on the prerelease identifier lists,
    and the declarative `precLt` / `identLt` it decides.

  The correctness theorems are in LDEval.Proofs.SemVer:
  `parseBytes p.render = some …` for every valid `p`, and
  `compare (parse p.render) (parse q.render) = Spec.compare p q`.

  Core Lean only.
-/
import LDEval.Model.SemVer

namespace LD.SemVerM
open LD.Scan

/-! ### Grammar -/

/-- A prerelease / build identifier: non-empty, bytes in `[0-9A-Za-z-]`; with
`numericNoLeadingZero` (prerelease identifiers, §9) an all-digit identifier longer than one byte
must not start with `0`. -/
def IdentOK (numericNoLeadingZero : Bool) (s : List UInt8) : Prop :=
  s ≠ [] ∧ (∀ b ∈ s, isAlnumOrHyphen b = true) ∧
  (numericNoLeadingZero = true → s.all isDigit = true → s.length > 1 → s.head? ≠ some 48)

instance (nr : Bool) (s : List UInt8) : Decidable (IdentOK nr s) := by
  unfold IdentOK; infer_instance

/-- Decimal digits of `n`, most significant first; `"0"` for 0. -/
def numBytes (n : Nat) : List UInt8 :=
  if n < 10 then [UInt8.ofNat (48 + n)] else numBytes (n / 10) ++ [UInt8.ofNat (48 + n % 10)]
termination_by n
decreasing_by omega

/-- Identifiers joined with `.` (byte 46). -/
def joinDots : List (List UInt8) → List UInt8
  | [] => []
  | [x] => x
  | x :: y :: rest => x ++ 46 :: joinDots (y :: rest)

/-- A structured version. `minor` / `patch` are `none` when omitted from the string. -/
structure Parts where
  major : Nat
  minor : Option Nat := none
  patch : Option Nat := none
  /-- prerelease identifiers (`[]` = no prerelease part) -/
  pre : List (List UInt8) := []
  /-- build-metadata identifiers (`[]` = no build part) -/
  build : List (List UInt8) := []

/-- Well-formed: patch only if minor is present; the three numbers fit Go's `int` (< 2^63, so the
parser's arithmetic does not wrap); identifiers are well-formed. -/
def Parts.Valid (p : Parts) : Prop :=
  (p.patch.isSome = true → p.minor.isSome = true) ∧
  p.major < 2 ^ 63 ∧ (∀ n, p.minor = some n → n < 2 ^ 63) ∧ (∀ n, p.patch = some n → n < 2 ^ 63) ∧
  (∀ s ∈ p.pre, IdentOK true s) ∧ (∀ s ∈ p.build, IdentOK false s)

instance (p : Parts) : Decidable p.Valid := by
  unfold Parts.Valid; infer_instance

/-- `.m` or nothing. -/
def dotNum : Option Nat → List UInt8
  | none => []
  | some n => 46 :: numBytes n

/-- `c` followed by the dot-joined identifiers, or nothing when there are none. -/
def optSection (c : UInt8) (ids : List (List UInt8)) : List UInt8 :=
  if ids.isEmpty then [] else c :: joinDots ids

/-- `M[.m[.p]][-a.b.c][+x.y]` -/
def Parts.render (p : Parts) : List UInt8 :=
  numBytes p.major ++ dotNum p.minor ++ dotNum p.patch ++ optSection 45 p.pre ++ optSection 43 p.build

/-! ### Precedence (§11) -/

namespace Spec

/-- Three-way comparison of naturals. -/
def cmpNat (a b : Nat) : Int := if a < b then -1 else if a > b then 1 else 0

/-- "Identifiers consisting of only digits" (§11.4.1). -/
def isNumeric (s : List UInt8) : Bool := s.all isDigit

/-- The number a numeric identifier denotes. -/
def numVal (s : List UInt8) : Nat := digitsVal s 0

/-- ASCII sort order (§11.4.2): byte-wise lexicographic, a proper prefix is smaller. -/
def lex : List UInt8 → List UInt8 → Int
  | [], [] => 0
  | [], _ :: _ => -1
  | _ :: _, [] => 1
  | a :: as, b :: bs => if a.toNat < b.toNat then -1 else if b.toNat < a.toNat then 1 else lex as bs

/-- §11.4.1–3: numeric identifiers compare numerically; numeric identifiers have lower precedence
than alphanumeric ones; alphanumeric identifiers compare in ASCII order. -/
def cmpIdent (a b : List UInt8) : Int :=
  if isNumeric a then (if isNumeric b then cmpNat (numVal a) (numVal b) else -1)
  else if isNumeric b then 1
  else lex a b

/-- §11.4: compare identifier lists left to right until a difference is found; §11.4.4: "a larger
set of pre-release fields has a higher precedence than a smaller set, if all of the preceding
identifiers are equal". -/
def cmpPre : List (List UInt8) → List (List UInt8) → Int
  | [], [] => 0
  | [], _ :: _ => -1
  | _ :: _, [] => 1
  | x :: xs, y :: ys => if cmpIdent x y ≠ 0 then cmpIdent x y else cmpPre xs ys

/-- §11.2–4: major, minor, patch numerically (omitted = 0); then "a pre-release version has lower
precedence than a normal version"; then the prerelease identifiers. Build metadata is ignored
(§10). The result is −1 / 0 / 1. -/
def compare (a b : Parts) : Int :=
  if a.major ≠ b.major then cmpNat a.major b.major
  else if a.minor.getD 0 ≠ b.minor.getD 0 then cmpNat (a.minor.getD 0) (b.minor.getD 0)
  else if a.patch.getD 0 ≠ b.patch.getD 0 then cmpNat (a.patch.getD 0) (b.patch.getD 0)
  else match a.pre, b.pre with
    | [], [] => 0
    | [], _ :: _ => 1
    | _ :: _, [] => -1
    | x :: xs, y :: ys => cmpPre (x :: xs) (y :: ys)

end Spec

/-! ### The same order, declaratively -/

/-- `a` has lower precedence than `b` as prerelease identifiers. -/
def identLt (a b : List UInt8) : Prop :=
  (Spec.isNumeric a = true ∧ Spec.isNumeric b = true ∧ Spec.numVal a < Spec.numVal b) ∨
  (Spec.isNumeric a = true ∧ Spec.isNumeric b = false) ∨
  (Spec.isNumeric a = false ∧ Spec.isNumeric b = false ∧ Spec.lex a b = -1)

/-- Same precedence as prerelease identifiers. -/
def identEq (a b : List UInt8) : Prop :=
  (Spec.isNumeric a = true ∧ Spec.isNumeric b = true ∧ Spec.numVal a = Spec.numVal b) ∨
  (Spec.isNumeric a = false ∧ Spec.isNumeric b = false ∧ a = b)

/-- Identifier list `a` has lower precedence than `b`: at the first position where they differ
`a`'s identifier is lower, or `a` is a proper prefix of `b` (up to identifier equivalence). -/
inductive preLt : List (List UInt8) → List (List UInt8) → Prop
  | nil (y ys) : preLt [] (y :: ys)
  | head (x xs y ys) : identLt x y → preLt (x :: xs) (y :: ys)
  | tail (x xs y ys) : identEq x y → preLt xs ys → preLt (x :: xs) (y :: ys)

/-- The (major, minor, patch) triple with omitted components read as 0. -/
def Parts.triple (p : Parts) : Nat × Nat × Nat := (p.major, p.minor.getD 0, p.patch.getD 0)

/-- `a` has lower precedence than `b` (§11). -/
def precLt (a b : Parts) : Prop :=
  a.major < b.major ∨
  (a.major = b.major ∧ a.minor.getD 0 < b.minor.getD 0) ∨
  (a.major = b.major ∧ a.minor.getD 0 = b.minor.getD 0 ∧ a.patch.getD 0 < b.patch.getD 0) ∨
  (a.triple = b.triple ∧ a.pre ≠ [] ∧ b.pre = []) ∨
  (a.triple = b.triple ∧ a.pre ≠ [] ∧ b.pre ≠ [] ∧ preLt a.pre b.pre)

end LD.SemVerM

import LDEval.Model.Basic
import LDEval.Model.Data
import LDEval.Model.Sha1

/-
  Driver — line protocol: one JSON case per input line, one JSON answer per output line.
  Runs the model's executable definitions on the case and evaluates Spec predicates on the
  behaviour the Go code reported.  Core Lean only.
-/
import LDEval.Wire
import LDEval.Spec.WellFormed
import LDEval.Spec.Schema
import LDEval.Model.SoftF64

open Lean LD LD.Wire

partial def jStrings : J → List String
  | .str s => [s]
  | .arr xs => xs.flatMap jStrings
  | .obj kvs => kvs.flatMap fun kv => jStrings kv.2
  | .raw v => jStrings v        -- string operators and `matches` parse a raw context value
  | _ => []

def ctxStrings (c : Ctx) : List String :=
  c.kind :: c.individuals.flatMap fun sc =>
    [sc.kind, sc.key] ++ sc.name.toList ++ sc.attrs.flatMap fun kv => jStrings kv.2

def clausePatterns (cs : List Clause) : List String :=
  cs.flatMap fun c => if c.op == "matches" then c.values.flatMap fun v =>
    match v.unraw with | .str s => [s] | _ => [] else []   -- `parseRegexp` parses a raw pattern

def flagPatterns (f : Flag) : List String := f.rules.flatMap fun r => clausePatterns r.clauses
def segPatterns (s : Segment) : List String := s.rules.flatMap fun r => clausePatterns r.clauses

/-- Every (pattern, subject) pair the model could ask the oracle about must be in the table. -/
def oracleMisses (tbl : List ((String × String) × Option Bool)) (pats subjs : List String) :
    List (String × String) :=
  pats.flatMap fun p => subjs.filterMap fun s =>
    if (tbl.lookup (p, s)).isSome then none
    else match tbl.lookup (p, "") with
      | some none => none            -- pattern known not to compile: subject irrelevant
      | _ => some (p, s)

def hexOfBytes (bs : List UInt8) : String :=
  String.ofList ((Sha1.hexEncode bs).map fun b => Char.ofNat b.toNat)

def bytesOfHex (s : String) : List UInt8 :=
  let rec go : List Char → List UInt8
    | a :: b :: rest =>
      let v (c : Char) : Nat := if c.isDigit then c.toNat - 48 else c.toNat - 87
      UInt8.ofNat (v a * 16 + v b) :: go rest
    | _ => []
  go s.toList

def optTimeOut : Option Int → Json | none => Json.null | some t => Json.str (toString t)

/-- Canonical form of an encoded document: members sorted by key, numbers at float64 precision. -/
partial def canonTree : J → J
  | .num q => .num (SoftF64.rnd q)
  | .arr xs => .arr (xs.map canonTree)
  | .obj kvs => .obj ((kvs.map fun kv => (kv.1, canonTree kv.2)).toArray.qsort (fun a b => a.1 < b.1)).toList
  | .raw v => canonTree v       -- the marshaller writes a raw value's text: the document holds the parsed value
  | v => v

def semverOut : Option SemVer → Json
  | none => Json.null
  | some v => Json.arr #[v.major, v.minor, v.patch, v.prerelease, v.build]

/-- A flag / segment with every preprocessed table removed, and whether it carried any. -/
def stripClause (c : Clause) : Clause := { c with pre := {} }
def stripFlag (f : Flag) : Flag :=
  { f with targets := f.targets.map (fun t => { t with pre := none }),
           contextTargets := f.contextTargets.map (fun t => { t with pre := none }),
           rules := f.rules.map (fun r => { r with clauses := r.clauses.map stripClause }) }
def stripSegment (s : Segment) : Segment :=
  { s with pre := {}, includedContexts := s.includedContexts.map (fun t => { t with pre := none }),
           excludedContexts := s.excludedContexts.map (fun t => { t with pre := none }),
           rules := s.rules.map (fun r => { r with clauses := r.clauses.map stripClause }) }
/-- Lookup tables are sets: in a dumped flag / segment, sort the arrays that hold them. -/
partial def sortTables : Json → Json
  | .obj kvs => Json.obj (kvs.foldl (init := {}) fun acc k v =>
      let v' := sortTables v
      let v'' := if k == "pm" || k == "incM" || k == "excM" then
          match v' with
          | .arr xs =>
            let sorted := (xs.map fun x => (x.compress, x)).qsort (fun a b => a.1 < b.1)
            let dedup := sorted.foldl (init := (#[] : Array (String × Json))) fun acc p =>
              match acc.back? with
              | some q => if q.1 == p.1 then acc else acc.push p
              | none => acc.push p
            Json.arr (dedup.map (·.2))
          | other => other
        else v'
      acc.insert k v'')
  | .arr xs => Json.arr (xs.map sortTables)
  | j => j

def clauseHasTables (c : Clause) : Bool := c.pre.values.isSome || c.pre.valuesMap.isSome
def flagHasTables (f : Flag) : Bool :=
  f.targets.any (·.pre.isSome) || f.contextTargets.any (·.pre.isSome) || f.rules.any (·.clauses.any clauseHasTables)
def segmentHasTables (s : Segment) : Bool :=
  s.pre.includeMap.isSome || s.pre.excludeMap.isSome || s.includedContexts.any (·.pre.isSome) ||
  s.excludedContexts.any (·.pre.isSome) || s.rules.any (·.clauses.any clauseHasTables)

/-- `fresh` (fully preprocessed) cut down to the tables that `g` actually carries. -/
def restrictClause (c fresh : Clause) : Clause :=
  { fresh with pre := { values := if c.pre.values.isSome then fresh.pre.values else none,
                        valuesMap := if c.pre.valuesMap.isSome then fresh.pre.valuesMap else none } }
def restrictTarget (t fresh : Target) : Target := { fresh with pre := if t.pre.isSome then fresh.pre else none }
def restrictSegTarget (t fresh : SegmentTarget) : SegmentTarget :=
  { fresh with pre := if t.pre.isSome then fresh.pre else none }
def restrictFlag (g fresh : Flag) : Flag :=
  { fresh with targets := List.zipWith restrictTarget g.targets fresh.targets,
               contextTargets := List.zipWith restrictTarget g.contextTargets fresh.contextTargets,
               rules := List.zipWith (fun r r' => { r' with clauses := List.zipWith restrictClause r.clauses r'.clauses })
                 g.rules fresh.rules }
def restrictSegment (s fresh : Segment) : Segment :=
  { fresh with pre := { includeMap := if s.pre.includeMap.isSome then fresh.pre.includeMap else none,
                        excludeMap := if s.pre.excludeMap.isSome then fresh.pre.excludeMap else none },
               includedContexts := List.zipWith restrictSegTarget s.includedContexts fresh.includedContexts,
               excludedContexts := List.zipWith restrictSegTarget s.excludedContexts fresh.excludedContexts,
               rules := List.zipWith (fun r r' => { r' with clauses := List.zipWith restrictClause r.clauses r'.clauses })
                 s.rules fresh.rules }

def handle (j : Json) : Except String Json := do
  let kind ← str j "kind"
  let rxT ← rxTable (fldD j "rx")
  let rx : RegexOracle := fun p s =>
    match rxT.lookup (p, s) with
    | some r => r
    | none => match rxT.lookup (p, "") with
      | some none => none
      | _ => some false
  if kind == "eval" then
    let env : Env := { opts := opts (fldD j "opts"), store := ← store (fldD j "store"),
                       bs := ← bsProvider (fldD j "bs"), ctx := ← Wire.ctx (← fld j "ctx"), rx }
    let f ← flag (← fld j "flag")
    let pats := flagPatterns f ++ (env.store.flags.map (·.2)).flatMap flagPatterns ++
      (env.store.segments.map (·.2)).flatMap segPatterns
    match oracleMisses rxT pats ("" :: ctxStrings env.ctx) with
    | m :: _ => throw s!"regex oracle has no entry for pattern {m.1} subject {m.2}"
    | [] => pure ()
    -- The model evaluates with the tables ITS preprocessing builds from the data of each item that
    -- carries tables, not with the ones the real code built and dumped: a table that does not belong
    -- to the values beside it (kept from an earlier state of the value, built from other operands)
    -- must show as a different evaluation, under every property, not only as `preOK = false`.
    let freshF (g : Flag) : Flag := if flagHasTables g then preprocessFlag rx (stripFlag g) else g
    let freshS (s : Segment) : Segment := if segmentHasTables s then preprocessSegment rx (stripSegment s) else s
    let envFresh : Env := { env with store := { env.store with
      flags := env.store.flags.map (fun p => (p.1, freshF p.2)),
      segments := env.store.segments.map (fun p => (p.1, freshS p.2)) } }
    let o := evaluate envFresh (freshF f)
    let goJ := fldD j "go"
    -- the preprocessed tables the real code built (they travel with the case and the model evaluates
    -- with them) must be the ones the model's own preprocessing builds from the same data
    -- (element by element: an item may carry tables on some of its clauses and lists only; each
    -- table that is present must be the one the model builds for that element)
    let strippedOK (g : Flag) : Bool :=
      (sortTables (flagOut (restrictFlag g (preprocessFlag rx (stripFlag g))))).compress == (sortTables (flagOut g)).compress || !flagHasTables g
    let segOK (s : Segment) : Bool :=
      (sortTables (segmentOut (restrictSegment s (preprocessSegment rx (stripSegment s))))).compress == (sortTables (segmentOut s)).compress || !segmentHasTables s
    let preOK : Bool := strippedOK f && (env.store.flags.map (·.2)).all strippedOK &&
      (env.store.segments.map (·.2)).all segOK
    let preds ← if goJ.isNull then pure Json.null else do
      -- a result that cannot even be read (the real code crashed or hung: empty reason) is not well-formed
      match (do let gr ← resultIn (← fld goJ "result"); pure gr : Except String _) with
      | .ok gr =>
        -- results carried by prerequisite events are results of evaluations too
        let evOK : Bool := (arrD goJ "events").all fun ej =>
          match resultIn (fldD ej "result") with
          | .ok er => (env.store.flags.map (·.2)).any fun pf => pf.key == strD ej "prereq" && wellFormedB pf er.detail
          | .error _ => false
        pure (Json.mkObj [("wellformed", wellFormedB f gr.detail), ("eventsWellformed", evOK), ("preOK", preOK)])
      | .error _ => pure (Json.mkObj [("wellformed", false), ("eventsWellformed", false), ("preOK", preOK)])
    return Json.mkObj [("out", obsOut o), ("pred", preds)]
  else if kind == "bucket" then
    let c ← Wire.ctx (← fld j "ctx")
    match computeBucket (boolD j "sec") c (boolD j "isExp") (optInt j "seed") (strD j "ck")
        (strD j "key") (← ref (← fld j "attr")) (strD j "salt") with
    | .error _ => return Json.mkObj [("out", Json.mkObj [("err", true), ("bits", 0), ("fail", 1)])]
    | .ok (b, f) =>
      return Json.mkObj [("out", Json.mkObj [("err", false), ("bits", SoftF32.bits b), ("fail", f.code)])]
  else if kind == "buffer" then
    let ops := arrD j "ops"
    let mut b := LocalBuffer.new (intD j "cap").toNat
    for op in ops do
      let k := strD op "k"
      if k == "b" then b := b.appendByte (UInt8.ofNat (intD op "b").toNat)
      else if k == "s" then b := b.appendString (strD op "s")
      else if k == "a" then b := b.append (strD op "s").toUTF8.toList
      else if k == "i" then b := b.appendInt (intD op "i")
    return Json.mkObj [("out", Json.mkObj [("data", hexOfBytes b.data)])]
  else if kind == "hex" then
    let bs := bytesOfHex (strD j "hex")
    return Json.mkObj [("out", match parseHexU64 bs with
      | some v => Json.mkObj [("ok", true), ("v", toString v.toNat)]
      | none => Json.mkObj [("ok", false), ("v", "0")])]
  else if kind == "time" then
    let v ← jval (fldD j "v")
    return Json.mkObj [("out", Json.mkObj [("t", optTimeOut (Time.valueToTimestamp v))])]
  else if kind == "semver" then
    let a := SemVerM.parse (strD j "a")
    let b := SemVerM.parse (strD j "b")
    let cmp : Json := match a, b with
      | some x, some y => SemVerM.compare x y
      | _, _ => Json.null
    return Json.mkObj [("out", Json.mkObj [("a", semverOut a), ("b", semverOut b), ("cmp", cmp)])]
  else if kind == "clause" then
    let c ← Wire.ctx (← fld j "ctx")
    let cl0 ← clause (← fld j "clause")
    -- as for evaluations: tables recomputed by the model from the clause's own values
    let cl := if clauseHasTables cl0 then { cl0 with pre := preprocessClause rx (stripClause cl0) } else cl0
    match clauseMatchNoSeg rx c cl with
    | .ok b => return Json.mkObj [("out", Json.mkObj [("match", b), ("err", Json.null)])]
    | .error e => return Json.mkObj [("out", Json.mkObj [("match", false), ("err", logClassOut e.logClass)])]
  else if kind == "accessor" then
    -- the exported accessors with an arbitrary index and possibly a nil clause
    let cl0 ← clause (← fld j "clause")
    let cl := if clauseHasTables cl0 then { cl0 with pre := preprocessClause rx (stripClause cl0) } else cl0
    let i := intD j "idx"
    let isNil := boolD j "nil"
    let v ← jval (fldD j "v")
    let bad := isNil || i < 0
    let n := i.toNat
    let rxOut : Json := if bad then Json.null else
      match cl.valueAsRegexp rx n with
      | some p => Json.str p
      | none => Json.null
    return Json.mkObj [("out", Json.mkObj [
      ("find", if isNil then false else cl.findValue v),
      ("rx", rxOut),
      ("sv", semverOut (if bad then none else cl.valueAsSemVer n)),
      ("t", optTimeOut (if bad then none else cl.valueAsTimestamp n))])]
  else if kind == "keyaccessor" then
    -- TargetFindKey / SegmentTargetFindKey / SegmentFindKeyInIncluded / …InExcluded with any probe key
    if boolD j "nil" then return Json.mkObj [("out", Json.mkObj [("found", false)])]
    let vals ← strList j "vals"
    let pm ← optStrList j "pm"
    return Json.mkObj [("out", Json.mkObj [("found", LD.findKey (strD j "probe") vals pm)])]
  else if kind == "preflag" then
    let f ← flag (← fld j "flag")
    return Json.mkObj [("out", flagOut (preprocessFlag rx f))]
  else if kind == "presegment" then
    let s ← segment (← fld j "segment")
    return Json.mkObj [("out", segmentOut (preprocessSegment rx s))]
  else if kind == "decflag" then
    match Codec.decodeFlag rx (← jval (fldD j "doc")) with
    | .ok f => return Json.mkObj [("out", Json.mkObj [("ok", true), ("flag", flagOut f)])]
    | .error _ => return Json.mkObj [("out", Json.mkObj [("ok", false), ("flag", Json.null)])]
  else if kind == "decseg" then
    match Codec.decodeSegment rx (← jval (fldD j "doc")) with
    | .ok s => return Json.mkObj [("out", Json.mkObj [("ok", true), ("segment", segmentOut s)])]
    | .error _ => return Json.mkObj [("out", Json.mkObj [("ok", false), ("segment", Json.null)])]
  else if kind == "encflag" then
    let f ← flag (← fld j "flag")
    let goTree ← jval (fldD j "goTree")
    return Json.mkObj [("out", Json.mkObj [("tree", jvalOut (canonTree (Codec.encodeFlag f)))]),
      ("pred", Json.mkObj [("schema", Schema.flagOK goTree), ("modelSchema", Schema.flagOK (Codec.encodeFlag f))])]
  else if kind == "encseg" then
    let s ← segment (← fld j "segment")
    let goTree ← jval (fldD j "goTree")
    return Json.mkObj [("out", Json.mkObj [("tree", jvalOut (canonTree (Codec.encodeSegment s)))]),
      ("pred", Json.mkObj [("schema", Schema.segmentOK goTree), ("modelSchema", Schema.segmentOK (Codec.encodeSegment s))])]
  else throw s!"unknown kind {kind}"

partial def loop (inp : IO.FS.Stream) (out : IO.FS.Stream) : IO Unit := do
  let line ← inp.getLine
  if line.isEmpty then return ()
  let ans : Json :=
    match Json.parse line with
    | .error e => Json.mkObj [("harnessError", s!"parse: {e}")]
    | .ok j =>
      let id := fldD j "id"
      match handle j with
      | .ok r => r.setObjVal! "id" id
      | .error e => Json.mkObj [("id", id), ("harnessError", e)]
  out.putStrLn ans.compress
  loop inp out

def main : IO Unit := do
  let inp ← IO.getStdin
  let out ← IO.getStdout
  loop inp out
  out.flush

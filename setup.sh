#!/bin/bash
# Builds the whole framework offline from files on disk: Lean library + driver, Go harness, factgen.
set -e
cd "$(dirname "$0")"
exec ./scripts/build_all.sh
